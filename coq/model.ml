
(** val negb : bool -> bool **)

let negb = function
| true -> false
| false -> true

type nat =
| O
| S of nat

(** val fst : ('a1 * 'a2) -> 'a1 **)

let fst = function
| (x, _) -> x

(** val snd : ('a1 * 'a2) -> 'a2 **)

let snd = function
| (_, y) -> y

(** val length : 'a1 list -> nat **)

let rec length = function
| [] -> O
| _ :: l' -> S (length l')

(** val app : 'a1 list -> 'a1 list -> 'a1 list **)

let rec app l m =
  match l with
  | [] -> m
  | a :: l1 -> a :: (app l1 m)

type comparison =
| Eq
| Lt
| Gt

(** val compOpp : comparison -> comparison **)

let compOpp = function
| Eq -> Eq
| Lt -> Gt
| Gt -> Lt

module Coq__1 = struct
 (** val add : nat -> nat -> nat **)
 let rec add n0 m =
   match n0 with
   | O -> m
   | S p -> S (add p m)
end
include Coq__1

(** val sub : nat -> nat -> nat **)

let rec sub n0 m =
  match n0 with
  | O -> n0
  | S k -> (match m with
            | O -> n0
            | S l -> sub k l)

type positive =
| XI of positive
| XO of positive
| XH

type n =
| N0
| Npos of positive

type z =
| Z0
| Zpos of positive
| Zneg of positive

module Nat =
 struct
  (** val add : nat -> nat -> nat **)

  let rec add n0 m =
    match n0 with
    | O -> m
    | S p -> S (add p m)

  (** val mul : nat -> nat -> nat **)

  let rec mul n0 m =
    match n0 with
    | O -> O
    | S p -> add m (mul p m)

  (** val sub : nat -> nat -> nat **)

  let rec sub n0 m =
    match n0 with
    | O -> n0
    | S k -> (match m with
              | O -> n0
              | S l -> sub k l)

  (** val eqb : nat -> nat -> bool **)

  let rec eqb n0 m =
    match n0 with
    | O -> (match m with
            | O -> true
            | S _ -> false)
    | S n' -> (match m with
               | O -> false
               | S m' -> eqb n' m')

  (** val pow : nat -> nat -> nat **)

  let rec pow n0 = function
  | O -> S O
  | S m0 -> mul n0 (pow n0 m0)

  (** val divmod : nat -> nat -> nat -> nat -> nat * nat **)

  let rec divmod x y q0 u =
    match x with
    | O -> (q0, u)
    | S x' ->
      (match u with
       | O -> divmod x' y (S q0) y
       | S u' -> divmod x' y q0 u')

  (** val div : nat -> nat -> nat **)

  let div x y = match y with
  | O -> y
  | S y' -> fst (divmod x y' O y')

  (** val modulo : nat -> nat -> nat **)

  let modulo x = function
  | O -> x
  | S y' -> sub y' (snd (divmod x y' O y'))
 end

module Pos =
 struct
  type mask =
  | IsNul
  | IsPos of positive
  | IsNeg
 end

module Coq_Pos =
 struct
  (** val succ : positive -> positive **)

  let rec succ = function
  | XI p -> XO (succ p)
  | XO p -> XI p
  | XH -> XO XH

  (** val add : positive -> positive -> positive **)

  let rec add x y =
    match x with
    | XI p ->
      (match y with
       | XI q0 -> XO (add_carry p q0)
       | XO q0 -> XI (add p q0)
       | XH -> XO (succ p))
    | XO p ->
      (match y with
       | XI q0 -> XI (add p q0)
       | XO q0 -> XO (add p q0)
       | XH -> XI p)
    | XH -> (match y with
             | XI q0 -> XO (succ q0)
             | XO q0 -> XI q0
             | XH -> XO XH)

  (** val add_carry : positive -> positive -> positive **)

  and add_carry x y =
    match x with
    | XI p ->
      (match y with
       | XI q0 -> XI (add_carry p q0)
       | XO q0 -> XO (add_carry p q0)
       | XH -> XI (succ p))
    | XO p ->
      (match y with
       | XI q0 -> XO (add_carry p q0)
       | XO q0 -> XI (add p q0)
       | XH -> XO (succ p))
    | XH ->
      (match y with
       | XI q0 -> XI (succ q0)
       | XO q0 -> XO (succ q0)
       | XH -> XI XH)

  (** val pred_double : positive -> positive **)

  let rec pred_double = function
  | XI p -> XI (XO p)
  | XO p -> XI (pred_double p)
  | XH -> XH

  (** val pred_N : positive -> n **)

  let pred_N = function
  | XI p -> Npos (XO p)
  | XO p -> Npos (pred_double p)
  | XH -> N0

  type mask = Pos.mask =
  | IsNul
  | IsPos of positive
  | IsNeg

  (** val succ_double_mask : mask -> mask **)

  let succ_double_mask = function
  | IsNul -> IsPos XH
  | IsPos p -> IsPos (XI p)
  | IsNeg -> IsNeg

  (** val double_mask : mask -> mask **)

  let double_mask = function
  | IsPos p -> IsPos (XO p)
  | x0 -> x0

  (** val double_pred_mask : positive -> mask **)

  let double_pred_mask = function
  | XI p -> IsPos (XO (XO p))
  | XO p -> IsPos (XO (pred_double p))
  | XH -> IsNul

  (** val sub_mask : positive -> positive -> mask **)

  let rec sub_mask x y =
    match x with
    | XI p ->
      (match y with
       | XI q0 -> double_mask (sub_mask p q0)
       | XO q0 -> succ_double_mask (sub_mask p q0)
       | XH -> IsPos (XO p))
    | XO p ->
      (match y with
       | XI q0 -> succ_double_mask (sub_mask_carry p q0)
       | XO q0 -> double_mask (sub_mask p q0)
       | XH -> IsPos (pred_double p))
    | XH -> (match y with
             | XH -> IsNul
             | _ -> IsNeg)

  (** val sub_mask_carry : positive -> positive -> mask **)

  and sub_mask_carry x y =
    match x with
    | XI p ->
      (match y with
       | XI q0 -> succ_double_mask (sub_mask_carry p q0)
       | XO q0 -> double_mask (sub_mask p q0)
       | XH -> IsPos (pred_double p))
    | XO p ->
      (match y with
       | XI q0 -> double_mask (sub_mask_carry p q0)
       | XO q0 -> succ_double_mask (sub_mask_carry p q0)
       | XH -> double_pred_mask p)
    | XH -> IsNeg

  (** val mul : positive -> positive -> positive **)

  let rec mul x y =
    match x with
    | XI p -> add y (XO (mul p y))
    | XO p -> XO (mul p y)
    | XH -> y

  (** val iter : ('a1 -> 'a1) -> 'a1 -> positive -> 'a1 **)

  let rec iter f x = function
  | XI n' -> f (iter f (iter f x n') n')
  | XO n' -> iter f (iter f x n') n'
  | XH -> f x

  (** val pow : positive -> positive -> positive **)

  let pow x =
    iter (mul x) XH

  (** val div2 : positive -> positive **)

  let div2 = function
  | XI p0 -> p0
  | XO p0 -> p0
  | XH -> XH

  (** val div2_up : positive -> positive **)

  let div2_up = function
  | XI p0 -> succ p0
  | XO p0 -> p0
  | XH -> XH

  (** val size : positive -> positive **)

  let rec size = function
  | XI p0 -> succ (size p0)
  | XO p0 -> succ (size p0)
  | XH -> XH

  (** val compare_cont : comparison -> positive -> positive -> comparison **)

  let rec compare_cont r x y =
    match x with
    | XI p ->
      (match y with
       | XI q0 -> compare_cont r p q0
       | XO q0 -> compare_cont Gt p q0
       | XH -> Gt)
    | XO p ->
      (match y with
       | XI q0 -> compare_cont Lt p q0
       | XO q0 -> compare_cont r p q0
       | XH -> Gt)
    | XH -> (match y with
             | XH -> r
             | _ -> Lt)

  (** val compare : positive -> positive -> comparison **)

  let compare =
    compare_cont Eq

  (** val eqb : positive -> positive -> bool **)

  let rec eqb p q0 =
    match p with
    | XI p0 -> (match q0 with
                | XI q1 -> eqb p0 q1
                | _ -> false)
    | XO p0 -> (match q0 with
                | XO q1 -> eqb p0 q1
                | _ -> false)
    | XH -> (match q0 with
             | XH -> true
             | _ -> false)

  (** val coq_Nsucc_double : n -> n **)

  let coq_Nsucc_double = function
  | N0 -> Npos XH
  | Npos p -> Npos (XI p)

  (** val coq_Ndouble : n -> n **)

  let coq_Ndouble = function
  | N0 -> N0
  | Npos p -> Npos (XO p)

  (** val coq_lor : positive -> positive -> positive **)

  let rec coq_lor p q0 =
    match p with
    | XI p0 ->
      (match q0 with
       | XI q1 -> XI (coq_lor p0 q1)
       | XO q1 -> XI (coq_lor p0 q1)
       | XH -> p)
    | XO p0 ->
      (match q0 with
       | XI q1 -> XI (coq_lor p0 q1)
       | XO q1 -> XO (coq_lor p0 q1)
       | XH -> XI p0)
    | XH -> (match q0 with
             | XO q1 -> XI q1
             | _ -> q0)

  (** val coq_land : positive -> positive -> n **)

  let rec coq_land p q0 =
    match p with
    | XI p0 ->
      (match q0 with
       | XI q1 -> coq_Nsucc_double (coq_land p0 q1)
       | XO q1 -> coq_Ndouble (coq_land p0 q1)
       | XH -> Npos XH)
    | XO p0 ->
      (match q0 with
       | XI q1 -> coq_Ndouble (coq_land p0 q1)
       | XO q1 -> coq_Ndouble (coq_land p0 q1)
       | XH -> N0)
    | XH -> (match q0 with
             | XO _ -> N0
             | _ -> Npos XH)

  (** val ldiff : positive -> positive -> n **)

  let rec ldiff p q0 =
    match p with
    | XI p0 ->
      (match q0 with
       | XI q1 -> coq_Ndouble (ldiff p0 q1)
       | XO q1 -> coq_Nsucc_double (ldiff p0 q1)
       | XH -> Npos (XO p0))
    | XO p0 ->
      (match q0 with
       | XI q1 -> coq_Ndouble (ldiff p0 q1)
       | XO q1 -> coq_Ndouble (ldiff p0 q1)
       | XH -> Npos p)
    | XH -> (match q0 with
             | XO _ -> Npos XH
             | _ -> N0)

  (** val coq_lxor : positive -> positive -> n **)

  let rec coq_lxor p q0 =
    match p with
    | XI p0 ->
      (match q0 with
       | XI q1 -> coq_Ndouble (coq_lxor p0 q1)
       | XO q1 -> coq_Nsucc_double (coq_lxor p0 q1)
       | XH -> Npos (XO p0))
    | XO p0 ->
      (match q0 with
       | XI q1 -> coq_Nsucc_double (coq_lxor p0 q1)
       | XO q1 -> coq_Ndouble (coq_lxor p0 q1)
       | XH -> Npos (XI p0))
    | XH ->
      (match q0 with
       | XI q1 -> Npos (XO q1)
       | XO q1 -> Npos (XI q1)
       | XH -> N0)

  (** val shiftl : positive -> n -> positive **)

  let shiftl p = function
  | N0 -> p
  | Npos n1 -> iter (fun x -> XO x) p n1

  (** val iter_op : ('a1 -> 'a1 -> 'a1) -> positive -> 'a1 -> 'a1 **)

  let rec iter_op op p a =
    match p with
    | XI p0 -> op a (iter_op op p0 (op a a))
    | XO p0 -> iter_op op p0 (op a a)
    | XH -> a

  (** val to_nat : positive -> nat **)

  let to_nat x =
    iter_op Coq__1.add x (S O)

  (** val of_succ_nat : nat -> positive **)

  let rec of_succ_nat = function
  | O -> XH
  | S x -> succ (of_succ_nat x)
 end

module N =
 struct
  (** val succ_double : n -> n **)

  let succ_double = function
  | N0 -> Npos XH
  | Npos p -> Npos (XI p)

  (** val double : n -> n **)

  let double = function
  | N0 -> N0
  | Npos p -> Npos (XO p)

  (** val pred : n -> n **)

  let pred = function
  | N0 -> N0
  | Npos p -> Coq_Pos.pred_N p

  (** val succ_pos : n -> positive **)

  let succ_pos = function
  | N0 -> XH
  | Npos p -> Coq_Pos.succ p

  (** val add : n -> n -> n **)

  let add n0 m =
    match n0 with
    | N0 -> m
    | Npos p -> (match m with
                 | N0 -> n0
                 | Npos q0 -> Npos (Coq_Pos.add p q0))

  (** val sub : n -> n -> n **)

  let sub n0 m =
    match n0 with
    | N0 -> N0
    | Npos n' ->
      (match m with
       | N0 -> n0
       | Npos m' ->
         (match Coq_Pos.sub_mask n' m' with
          | Coq_Pos.IsPos p -> Npos p
          | _ -> N0))

  (** val mul : n -> n -> n **)

  let mul n0 m =
    match n0 with
    | N0 -> N0
    | Npos p -> (match m with
                 | N0 -> N0
                 | Npos q0 -> Npos (Coq_Pos.mul p q0))

  (** val compare : n -> n -> comparison **)

  let compare n0 m =
    match n0 with
    | N0 -> (match m with
             | N0 -> Eq
             | Npos _ -> Lt)
    | Npos n' -> (match m with
                  | N0 -> Gt
                  | Npos m' -> Coq_Pos.compare n' m')

  (** val eqb : n -> n -> bool **)

  let eqb n0 m =
    match n0 with
    | N0 -> (match m with
             | N0 -> true
             | Npos _ -> false)
    | Npos p -> (match m with
                 | N0 -> false
                 | Npos q0 -> Coq_Pos.eqb p q0)

  (** val leb : n -> n -> bool **)

  let leb x y =
    match compare x y with
    | Gt -> false
    | _ -> true

  (** val div2 : n -> n **)

  let div2 = function
  | N0 -> N0
  | Npos p0 -> (match p0 with
                | XI p -> Npos p
                | XO p -> Npos p
                | XH -> N0)

  (** val pow : n -> n -> n **)

  let pow n0 = function
  | N0 -> Npos XH
  | Npos p0 -> (match n0 with
                | N0 -> N0
                | Npos q0 -> Npos (Coq_Pos.pow q0 p0))

  (** val pos_div_eucl : positive -> n -> n * n **)

  let rec pos_div_eucl a b =
    match a with
    | XI a' ->
      let (q0, r) = pos_div_eucl a' b in
      let r' = succ_double r in
      if leb b r' then ((succ_double q0), (sub r' b)) else ((double q0), r')
    | XO a' ->
      let (q0, r) = pos_div_eucl a' b in
      let r' = double r in
      if leb b r' then ((succ_double q0), (sub r' b)) else ((double q0), r')
    | XH ->
      (match b with
       | N0 -> (N0, (Npos XH))
       | Npos p -> (match p with
                    | XH -> ((Npos XH), N0)
                    | _ -> (N0, (Npos XH))))

  (** val div_eucl : n -> n -> n * n **)

  let div_eucl a b =
    match a with
    | N0 -> (N0, N0)
    | Npos na -> (match b with
                  | N0 -> (N0, a)
                  | Npos _ -> pos_div_eucl na b)

  (** val modulo : n -> n -> n **)

  let modulo a b =
    snd (div_eucl a b)

  (** val coq_lor : n -> n -> n **)

  let coq_lor n0 m =
    match n0 with
    | N0 -> m
    | Npos p ->
      (match m with
       | N0 -> n0
       | Npos q0 -> Npos (Coq_Pos.coq_lor p q0))

  (** val coq_land : n -> n -> n **)

  let coq_land n0 m =
    match n0 with
    | N0 -> N0
    | Npos p -> (match m with
                 | N0 -> N0
                 | Npos q0 -> Coq_Pos.coq_land p q0)

  (** val ldiff : n -> n -> n **)

  let ldiff n0 m =
    match n0 with
    | N0 -> N0
    | Npos p -> (match m with
                 | N0 -> n0
                 | Npos q0 -> Coq_Pos.ldiff p q0)

  (** val coq_lxor : n -> n -> n **)

  let coq_lxor n0 m =
    match n0 with
    | N0 -> m
    | Npos p -> (match m with
                 | N0 -> n0
                 | Npos q0 -> Coq_Pos.coq_lxor p q0)

  (** val shiftl : n -> n -> n **)

  let shiftl a n0 =
    match a with
    | N0 -> N0
    | Npos a0 -> Npos (Coq_Pos.shiftl a0 n0)

  (** val shiftr : n -> n -> n **)

  let shiftr a = function
  | N0 -> a
  | Npos p -> Coq_Pos.iter div2 a p

  (** val of_nat : nat -> n **)

  let of_nat = function
  | O -> N0
  | S n' -> Npos (Coq_Pos.of_succ_nat n')

  (** val ones : n -> n **)

  let ones n0 =
    pred (shiftl (Npos XH) n0)
 end

module Z =
 struct
  (** val double : z -> z **)

  let double = function
  | Z0 -> Z0
  | Zpos p -> Zpos (XO p)
  | Zneg p -> Zneg (XO p)

  (** val succ_double : z -> z **)

  let succ_double = function
  | Z0 -> Zpos XH
  | Zpos p -> Zpos (XI p)
  | Zneg p -> Zneg (Coq_Pos.pred_double p)

  (** val pred_double : z -> z **)

  let pred_double = function
  | Z0 -> Zneg XH
  | Zpos p -> Zpos (Coq_Pos.pred_double p)
  | Zneg p -> Zneg (XI p)

  (** val pos_sub : positive -> positive -> z **)

  let rec pos_sub x y =
    match x with
    | XI p ->
      (match y with
       | XI q0 -> double (pos_sub p q0)
       | XO q0 -> succ_double (pos_sub p q0)
       | XH -> Zpos (XO p))
    | XO p ->
      (match y with
       | XI q0 -> pred_double (pos_sub p q0)
       | XO q0 -> double (pos_sub p q0)
       | XH -> Zpos (Coq_Pos.pred_double p))
    | XH ->
      (match y with
       | XI q0 -> Zneg (XO q0)
       | XO q0 -> Zneg (Coq_Pos.pred_double q0)
       | XH -> Z0)

  (** val add : z -> z -> z **)

  let add x y =
    match x with
    | Z0 -> y
    | Zpos x' ->
      (match y with
       | Z0 -> x
       | Zpos y' -> Zpos (Coq_Pos.add x' y')
       | Zneg y' -> pos_sub x' y')
    | Zneg x' ->
      (match y with
       | Z0 -> x
       | Zpos y' -> pos_sub y' x'
       | Zneg y' -> Zneg (Coq_Pos.add x' y'))

  (** val opp : z -> z **)

  let opp = function
  | Z0 -> Z0
  | Zpos x0 -> Zneg x0
  | Zneg x0 -> Zpos x0

  (** val sub : z -> z -> z **)

  let sub m n0 =
    add m (opp n0)

  (** val mul : z -> z -> z **)

  let mul x y =
    match x with
    | Z0 -> Z0
    | Zpos x' ->
      (match y with
       | Z0 -> Z0
       | Zpos y' -> Zpos (Coq_Pos.mul x' y')
       | Zneg y' -> Zneg (Coq_Pos.mul x' y'))
    | Zneg x' ->
      (match y with
       | Z0 -> Z0
       | Zpos y' -> Zneg (Coq_Pos.mul x' y')
       | Zneg y' -> Zpos (Coq_Pos.mul x' y'))

  (** val pow_pos : z -> positive -> z **)

  let pow_pos z0 =
    Coq_Pos.iter (mul z0) (Zpos XH)

  (** val pow : z -> z -> z **)

  let pow x = function
  | Z0 -> Zpos XH
  | Zpos p -> pow_pos x p
  | Zneg _ -> Z0

  (** val compare : z -> z -> comparison **)

  let compare x y =
    match x with
    | Z0 -> (match y with
             | Z0 -> Eq
             | Zpos _ -> Lt
             | Zneg _ -> Gt)
    | Zpos x' -> (match y with
                  | Zpos y' -> Coq_Pos.compare x' y'
                  | _ -> Gt)
    | Zneg x' ->
      (match y with
       | Zneg y' -> compOpp (Coq_Pos.compare x' y')
       | _ -> Lt)

  (** val leb : z -> z -> bool **)

  let leb x y =
    match compare x y with
    | Gt -> false
    | _ -> true

  (** val ltb : z -> z -> bool **)

  let ltb x y =
    match compare x y with
    | Lt -> true
    | _ -> false

  (** val eqb : z -> z -> bool **)

  let eqb x y =
    match x with
    | Z0 -> (match y with
             | Z0 -> true
             | _ -> false)
    | Zpos p -> (match y with
                 | Zpos q0 -> Coq_Pos.eqb p q0
                 | _ -> false)
    | Zneg p -> (match y with
                 | Zneg q0 -> Coq_Pos.eqb p q0
                 | _ -> false)

  (** val max : z -> z -> z **)

  let max n0 m =
    match compare n0 m with
    | Lt -> m
    | _ -> n0

  (** val abs : z -> z **)

  let abs = function
  | Zneg p -> Zpos p
  | x -> x

  (** val to_nat : z -> nat **)

  let to_nat = function
  | Zpos p -> Coq_Pos.to_nat p
  | _ -> O

  (** val to_N : z -> n **)

  let to_N = function
  | Zpos p -> Npos p
  | _ -> N0

  (** val of_nat : nat -> z **)

  let of_nat = function
  | O -> Z0
  | S n1 -> Zpos (Coq_Pos.of_succ_nat n1)

  (** val of_N : n -> z **)

  let of_N = function
  | N0 -> Z0
  | Npos p -> Zpos p

  (** val pos_div_eucl : positive -> z -> z * z **)

  let rec pos_div_eucl a b =
    match a with
    | XI a' ->
      let (q0, r) = pos_div_eucl a' b in
      let r' = add (mul (Zpos (XO XH)) r) (Zpos XH) in
      if ltb r' b
      then ((mul (Zpos (XO XH)) q0), r')
      else ((add (mul (Zpos (XO XH)) q0) (Zpos XH)), (sub r' b))
    | XO a' ->
      let (q0, r) = pos_div_eucl a' b in
      let r' = mul (Zpos (XO XH)) r in
      if ltb r' b
      then ((mul (Zpos (XO XH)) q0), r')
      else ((add (mul (Zpos (XO XH)) q0) (Zpos XH)), (sub r' b))
    | XH -> if leb (Zpos (XO XH)) b then (Z0, (Zpos XH)) else ((Zpos XH), Z0)

  (** val div_eucl : z -> z -> z * z **)

  let div_eucl a b =
    match a with
    | Z0 -> (Z0, Z0)
    | Zpos a' ->
      (match b with
       | Z0 -> (Z0, a)
       | Zpos _ -> pos_div_eucl a' b
       | Zneg b' ->
         let (q0, r) = pos_div_eucl a' (Zpos b') in
         (match r with
          | Z0 -> ((opp q0), Z0)
          | _ -> ((opp (add q0 (Zpos XH))), (add b r))))
    | Zneg a' ->
      (match b with
       | Z0 -> (Z0, a)
       | Zpos _ ->
         let (q0, r) = pos_div_eucl a' b in
         (match r with
          | Z0 -> ((opp q0), Z0)
          | _ -> ((opp (add q0 (Zpos XH))), (sub b r)))
       | Zneg b' -> let (q0, r) = pos_div_eucl a' (Zpos b') in (q0, (opp r)))

  (** val div : z -> z -> z **)

  let div a b =
    let (q0, _) = div_eucl a b in q0

  (** val modulo : z -> z -> z **)

  let modulo a b =
    let (_, r) = div_eucl a b in r

  (** val div2 : z -> z **)

  let div2 = function
  | Z0 -> Z0
  | Zpos p -> (match p with
               | XH -> Z0
               | _ -> Zpos (Coq_Pos.div2 p))
  | Zneg p -> Zneg (Coq_Pos.div2_up p)

  (** val log2 : z -> z **)

  let log2 = function
  | Zpos p0 ->
    (match p0 with
     | XI p -> Zpos (Coq_Pos.size p)
     | XO p -> Zpos (Coq_Pos.size p)
     | XH -> Z0)
  | _ -> Z0

  (** val shiftl : z -> z -> z **)

  let shiftl a = function
  | Z0 -> a
  | Zpos p -> Coq_Pos.iter (mul (Zpos (XO XH))) a p
  | Zneg p -> Coq_Pos.iter div2 a p

  (** val shiftr : z -> z -> z **)

  let shiftr a n0 =
    shiftl a (opp n0)

  (** val coq_lor : z -> z -> z **)

  let coq_lor a b =
    match a with
    | Z0 -> b
    | Zpos a0 ->
      (match b with
       | Z0 -> a
       | Zpos b0 -> Zpos (Coq_Pos.coq_lor a0 b0)
       | Zneg b0 -> Zneg (N.succ_pos (N.ldiff (Coq_Pos.pred_N b0) (Npos a0))))
    | Zneg a0 ->
      (match b with
       | Z0 -> a
       | Zpos b0 -> Zneg (N.succ_pos (N.ldiff (Coq_Pos.pred_N a0) (Npos b0)))
       | Zneg b0 ->
         Zneg
           (N.succ_pos (N.coq_land (Coq_Pos.pred_N a0) (Coq_Pos.pred_N b0))))

  (** val coq_land : z -> z -> z **)

  let coq_land a b =
    match a with
    | Z0 -> Z0
    | Zpos a0 ->
      (match b with
       | Z0 -> Z0
       | Zpos b0 -> of_N (Coq_Pos.coq_land a0 b0)
       | Zneg b0 -> of_N (N.ldiff (Npos a0) (Coq_Pos.pred_N b0)))
    | Zneg a0 ->
      (match b with
       | Z0 -> Z0
       | Zpos b0 -> of_N (N.ldiff (Npos b0) (Coq_Pos.pred_N a0))
       | Zneg b0 ->
         Zneg (N.succ_pos (N.coq_lor (Coq_Pos.pred_N a0) (Coq_Pos.pred_N b0))))

  (** val coq_lxor : z -> z -> z **)

  let coq_lxor a b =
    match a with
    | Z0 -> b
    | Zpos a0 ->
      (match b with
       | Z0 -> a
       | Zpos b0 -> of_N (Coq_Pos.coq_lxor a0 b0)
       | Zneg b0 ->
         Zneg (N.succ_pos (N.coq_lxor (Npos a0) (Coq_Pos.pred_N b0))))
    | Zneg a0 ->
      (match b with
       | Z0 -> a
       | Zpos b0 ->
         Zneg (N.succ_pos (N.coq_lxor (Coq_Pos.pred_N a0) (Npos b0)))
       | Zneg b0 -> of_N (N.coq_lxor (Coq_Pos.pred_N a0) (Coq_Pos.pred_N b0)))

  (** val b2z : bool -> z **)

  let b2z = function
  | true -> Zpos XH
  | false -> Z0
 end

(** val nth : nat -> 'a1 list -> 'a1 -> 'a1 **)

let rec nth n0 l default =
  match n0 with
  | O -> (match l with
          | [] -> default
          | x :: _ -> x)
  | S m -> (match l with
            | [] -> default
            | _ :: t -> nth m t default)

(** val rev : 'a1 list -> 'a1 list **)

let rec rev = function
| [] -> []
| x :: l' -> app (rev l') (x :: [])

(** val concat : 'a1 list list -> 'a1 list **)

let rec concat = function
| [] -> []
| x :: l0 -> app x (concat l0)

(** val map : ('a1 -> 'a2) -> 'a1 list -> 'a2 list **)

let rec map f = function
| [] -> []
| a :: t -> (f a) :: (map f t)

(** val flat_map : ('a1 -> 'a2 list) -> 'a1 list -> 'a2 list **)

let rec flat_map f = function
| [] -> []
| x :: t -> app (f x) (flat_map f t)

(** val fold_left : ('a1 -> 'a2 -> 'a1) -> 'a2 list -> 'a1 -> 'a1 **)

let rec fold_left f l a0 =
  match l with
  | [] -> a0
  | b :: t -> fold_left f t (f a0 b)

(** val fold_right : ('a2 -> 'a1 -> 'a1) -> 'a1 -> 'a2 list -> 'a1 **)

let rec fold_right f a0 = function
| [] -> a0
| b :: t -> f b (fold_right f a0 t)

(** val forallb : ('a1 -> bool) -> 'a1 list -> bool **)

let rec forallb f = function
| [] -> true
| a :: l0 -> (&&) (f a) (forallb f l0)

(** val filter : ('a1 -> bool) -> 'a1 list -> 'a1 list **)

let rec filter f = function
| [] -> []
| x :: l0 -> if f x then x :: (filter f l0) else filter f l0

(** val combine : 'a1 list -> 'a2 list -> ('a1 * 'a2) list **)

let rec combine l l' =
  match l with
  | [] -> []
  | x :: tl ->
    (match l' with
     | [] -> []
     | y :: tl' -> (x, y) :: (combine tl tl'))

(** val firstn : nat -> 'a1 list -> 'a1 list **)

let rec firstn n0 l =
  match n0 with
  | O -> []
  | S n1 -> (match l with
             | [] -> []
             | a :: l0 -> a :: (firstn n1 l0))

(** val skipn : nat -> 'a1 list -> 'a1 list **)

let rec skipn n0 l =
  match n0 with
  | O -> l
  | S n1 -> (match l with
             | [] -> []
             | _ :: l0 -> skipn n1 l0)

(** val seq : nat -> nat -> nat list **)

let rec seq start = function
| O -> []
| S len0 -> start :: (seq (S start) len0)

(** val repeat : 'a1 -> nat -> 'a1 list **)

let rec repeat x = function
| O -> []
| S k -> x :: (repeat x k)

type ascii =
| Ascii of bool * bool * bool * bool * bool * bool * bool * bool

type string =
| EmptyString
| String of ascii * string

type bytes = z list

(** val zlen : 'a1 list -> z **)

let zlen l =
  Z.of_nat (length l)

(** val ztake : z -> 'a1 list -> 'a1 list **)

let ztake n0 l =
  firstn (Z.to_nat n0) l

(** val zdrop : z -> 'a1 list -> 'a1 list **)

let zdrop n0 l =
  skipn (Z.to_nat n0) l

(** val zslice : z -> z -> 'a1 list -> 'a1 list **)

let zslice a b l =
  ztake (Z.sub b a) (zdrop a l)

(** val znth : z list -> z -> z **)

let znth l i =
  nth (Z.to_nat i) l Z0

(** val upd : 'a1 list -> nat -> 'a1 -> 'a1 list **)

let rec upd l i v =
  match l with
  | [] -> []
  | x :: r -> (match i with
               | O -> v :: r
               | S i' -> x :: (upd r i' v))

(** val zupd : z list -> z -> z -> z list **)

let zupd l i v =
  upd l (Z.to_nat i) v

(** val zeros : nat -> z list **)

let zeros n0 =
  repeat Z0 n0

(** val sumZ : z list -> z **)

let sumZ l =
  fold_right Z.add Z0 l

(** val list_eqb : z list -> z list -> bool **)

let list_eqb a b =
  (&&) (Nat.eqb (length a) (length b))
    (forallb (fun p -> Z.eqb (fst p) (snd p)) (combine a b))

type err =
| CtxTooLong
| RngFailed
| Malformed
| Reject

type 'a res =
| Ok of 'a
| Err of err
| Panic of string
| OutOfFuel

(** val bind : 'a1 res -> ('a1 -> 'a2 res) -> 'a2 res **)

let bind m f =
  match m with
  | Ok a -> f a
  | Err e -> Err e
  | Panic s -> Panic s
  | OutOfFuel -> OutOfFuel

(** val guard : bool -> string -> unit res **)

let guard c site =
  if c then Ok () else Panic site

(** val ensure : bool -> err -> unit res **)

let ensure c e =
  if c then Ok () else Err e

(** val mapM : ('a1 -> 'a2 res) -> 'a1 list -> 'a2 list res **)

let rec mapM f = function
| [] -> Ok []
| a :: r -> bind (f a) (fun b -> bind (mapM f r) (fun bs -> Ok (b :: bs)))

(** val map2M :
    ('a1 -> 'a2 -> 'a3 res) -> 'a1 list -> 'a2 list -> 'a3 list res **)

let rec map2M f l1 l2 =
  match l1 with
  | [] -> Ok []
  | a :: r1 ->
    (match l2 with
     | [] -> Ok []
     | b :: r2 ->
       bind (f a b) (fun c -> bind (map2M f r1 r2) (fun cs -> Ok (c :: cs))))

(** val i32_min : z **)

let i32_min =
  Zneg (XO (XO (XO (XO (XO (XO (XO (XO (XO (XO (XO (XO (XO (XO (XO (XO (XO
    (XO (XO (XO (XO (XO (XO (XO (XO (XO (XO (XO (XO (XO (XO
    XH)))))))))))))))))))))))))))))))

(** val i32_max : z **)

let i32_max =
  Zpos (XI (XI (XI (XI (XI (XI (XI (XI (XI (XI (XI (XI (XI (XI (XI (XI (XI
    (XI (XI (XI (XI (XI (XI (XI (XI (XI (XI (XI (XI (XI
    XH))))))))))))))))))))))))))))))

(** val i64_min : z **)

let i64_min =
  Zneg (XO (XO (XO (XO (XO (XO (XO (XO (XO (XO (XO (XO (XO (XO (XO (XO (XO
    (XO (XO (XO (XO (XO (XO (XO (XO (XO (XO (XO (XO (XO (XO (XO (XO (XO (XO
    (XO (XO (XO (XO (XO (XO (XO (XO (XO (XO (XO (XO (XO (XO (XO (XO (XO (XO
    (XO (XO (XO (XO (XO (XO (XO (XO (XO (XO
    XH)))))))))))))))))))))))))))))))))))))))))))))))))))))))))))))))

(** val i64_max : z **)

let i64_max =
  Zpos (XI (XI (XI (XI (XI (XI (XI (XI (XI (XI (XI (XI (XI (XI (XI (XI (XI
    (XI (XI (XI (XI (XI (XI (XI (XI (XI (XI (XI (XI (XI (XI (XI (XI (XI (XI
    (XI (XI (XI (XI (XI (XI (XI (XI (XI (XI (XI (XI (XI (XI (XI (XI (XI (XI
    (XI (XI (XI (XI (XI (XI (XI (XI (XI
    XH))))))))))))))))))))))))))))))))))))))))))))))))))))))))))))))

(** val in_i32 : z -> bool **)

let in_i32 z0 =
  (&&) (Z.leb i32_min z0) (Z.leb z0 i32_max)

(** val in_i64 : z -> bool **)

let in_i64 z0 =
  (&&) (Z.leb i64_min z0) (Z.leb z0 i64_max)

(** val wrap32 : z -> z **)

let wrap32 z0 =
  Z.sub
    (Z.modulo
      (Z.add z0 (Zpos (XO (XO (XO (XO (XO (XO (XO (XO (XO (XO (XO (XO (XO (XO
        (XO (XO (XO (XO (XO (XO (XO (XO (XO (XO (XO (XO (XO (XO (XO (XO (XO
        XH))))))))))))))))))))))))))))))))) (Zpos (XO (XO (XO (XO (XO (XO (XO
      (XO (XO (XO (XO (XO (XO (XO (XO (XO (XO (XO (XO (XO (XO (XO (XO (XO (XO
      (XO (XO (XO (XO (XO (XO (XO XH)))))))))))))))))))))))))))))))))) (Zpos
    (XO (XO (XO (XO (XO (XO (XO (XO (XO (XO (XO (XO (XO (XO (XO (XO (XO (XO
    (XO (XO (XO (XO (XO (XO (XO (XO (XO (XO (XO (XO (XO
    XH))))))))))))))))))))))))))))))))

(** val wrap64 : z -> z **)

let wrap64 z0 =
  Z.sub
    (Z.modulo
      (Z.add z0 (Zpos (XO (XO (XO (XO (XO (XO (XO (XO (XO (XO (XO (XO (XO (XO
        (XO (XO (XO (XO (XO (XO (XO (XO (XO (XO (XO (XO (XO (XO (XO (XO (XO
        (XO (XO (XO (XO (XO (XO (XO (XO (XO (XO (XO (XO (XO (XO (XO (XO (XO
        (XO (XO (XO (XO (XO (XO (XO (XO (XO (XO (XO (XO (XO (XO (XO
        XH)))))))))))))))))))))))))))))))))))))))))))))))))))))))))))))))))
      (Zpos (XO (XO (XO (XO (XO (XO (XO (XO (XO (XO (XO (XO (XO (XO (XO (XO
      (XO (XO (XO (XO (XO (XO (XO (XO (XO (XO (XO (XO (XO (XO (XO (XO (XO (XO
      (XO (XO (XO (XO (XO (XO (XO (XO (XO (XO (XO (XO (XO (XO (XO (XO (XO (XO
      (XO (XO (XO (XO (XO (XO (XO (XO (XO (XO (XO (XO
      XH))))))))))))))))))))))))))))))))))))))))))))))))))))))))))))))))))
    (Zpos (XO (XO (XO (XO (XO (XO (XO (XO (XO (XO (XO (XO (XO (XO (XO (XO (XO
    (XO (XO (XO (XO (XO (XO (XO (XO (XO (XO (XO (XO (XO (XO (XO (XO (XO (XO
    (XO (XO (XO (XO (XO (XO (XO (XO (XO (XO (XO (XO (XO (XO (XO (XO (XO (XO
    (XO (XO (XO (XO (XO (XO (XO (XO (XO (XO
    XH))))))))))))))))))))))))))))))))))))))))))))))))))))))))))))))))

(** val chk32 : string -> z -> z res **)

let chk32 site z0 =
  if in_i32 z0 then Ok z0 else Panic site

(** val chk64 : string -> z -> z res **)

let chk64 site z0 =
  if in_i64 z0 then Ok z0 else Panic site

(** val add32 : z -> z -> z res **)

let add32 a b =
  chk32 (String ((Ascii (true, false, false, true, false, true, true,
    false)), (String ((Ascii (true, true, false, false, true, true, false,
    false)), (String ((Ascii (false, true, false, false, true, true, false,
    false)), (String ((Ascii (false, false, false, false, false, true, false,
    false)), (String ((Ascii (true, false, false, false, false, true, true,
    false)), (String ((Ascii (false, false, true, false, false, true, true,
    false)), (String ((Ascii (false, false, true, false, false, true, true,
    false)), (String ((Ascii (false, false, false, false, false, true, false,
    false)), (String ((Ascii (true, true, true, true, false, true, true,
    false)), (String ((Ascii (false, true, true, false, true, true, true,
    false)), (String ((Ascii (true, false, true, false, false, true, true,
    false)), (String ((Ascii (false, true, false, false, true, true, true,
    false)), (String ((Ascii (false, true, true, false, false, true, true,
    false)), (String ((Ascii (false, false, true, true, false, true, true,
    false)), (String ((Ascii (true, true, true, true, false, true, true,
    false)), (String ((Ascii (true, true, true, false, true, true, true,
    false)), EmptyString)))))))))))))))))))))))))))))))) (Z.add a b)

(** val sub32 : z -> z -> z res **)

let sub32 a b =
  chk32 (String ((Ascii (true, false, false, true, false, true, true,
    false)), (String ((Ascii (true, true, false, false, true, true, false,
    false)), (String ((Ascii (false, true, false, false, true, true, false,
    false)), (String ((Ascii (false, false, false, false, false, true, false,
    false)), (String ((Ascii (true, true, false, false, true, true, true,
    false)), (String ((Ascii (true, false, true, false, true, true, true,
    false)), (String ((Ascii (false, true, false, false, false, true, true,
    false)), (String ((Ascii (false, false, false, false, false, true, false,
    false)), (String ((Ascii (true, true, true, true, false, true, true,
    false)), (String ((Ascii (false, true, true, false, true, true, true,
    false)), (String ((Ascii (true, false, true, false, false, true, true,
    false)), (String ((Ascii (false, true, false, false, true, true, true,
    false)), (String ((Ascii (false, true, true, false, false, true, true,
    false)), (String ((Ascii (false, false, true, true, false, true, true,
    false)), (String ((Ascii (true, true, true, true, false, true, true,
    false)), (String ((Ascii (true, true, true, false, true, true, true,
    false)), EmptyString)))))))))))))))))))))))))))))))) (Z.sub a b)

(** val mul32 : z -> z -> z res **)

let mul32 a b =
  chk32 (String ((Ascii (true, false, false, true, false, true, true,
    false)), (String ((Ascii (true, true, false, false, true, true, false,
    false)), (String ((Ascii (false, true, false, false, true, true, false,
    false)), (String ((Ascii (false, false, false, false, false, true, false,
    false)), (String ((Ascii (true, false, true, true, false, true, true,
    false)), (String ((Ascii (true, false, true, false, true, true, true,
    false)), (String ((Ascii (false, false, true, true, false, true, true,
    false)), (String ((Ascii (false, false, false, false, false, true, false,
    false)), (String ((Ascii (true, true, true, true, false, true, true,
    false)), (String ((Ascii (false, true, true, false, true, true, true,
    false)), (String ((Ascii (true, false, true, false, false, true, true,
    false)), (String ((Ascii (false, true, false, false, true, true, true,
    false)), (String ((Ascii (false, true, true, false, false, true, true,
    false)), (String ((Ascii (false, false, true, true, false, true, true,
    false)), (String ((Ascii (true, true, true, true, false, true, true,
    false)), (String ((Ascii (true, true, true, false, true, true, true,
    false)), EmptyString)))))))))))))))))))))))))))))))) (Z.mul a b)

(** val neg32 : z -> z res **)

let neg32 a =
  chk32 (String ((Ascii (true, false, false, true, false, true, true,
    false)), (String ((Ascii (true, true, false, false, true, true, false,
    false)), (String ((Ascii (false, true, false, false, true, true, false,
    false)), (String ((Ascii (false, false, false, false, false, true, false,
    false)), (String ((Ascii (false, true, true, true, false, true, true,
    false)), (String ((Ascii (true, false, true, false, false, true, true,
    false)), (String ((Ascii (true, true, true, false, false, true, true,
    false)), (String ((Ascii (false, false, false, false, false, true, false,
    false)), (String ((Ascii (true, true, true, true, false, true, true,
    false)), (String ((Ascii (false, true, true, false, true, true, true,
    false)), (String ((Ascii (true, false, true, false, false, true, true,
    false)), (String ((Ascii (false, true, false, false, true, true, true,
    false)), (String ((Ascii (false, true, true, false, false, true, true,
    false)), (String ((Ascii (false, false, true, true, false, true, true,
    false)), (String ((Ascii (true, true, true, true, false, true, true,
    false)), (String ((Ascii (true, true, true, false, true, true, true,
    false)), EmptyString)))))))))))))))))))))))))))))))) (Z.opp a)

(** val abs32 : z -> z res **)

let abs32 a =
  chk32 (String ((Ascii (true, false, false, true, false, true, true,
    false)), (String ((Ascii (true, true, false, false, true, true, false,
    false)), (String ((Ascii (false, true, false, false, true, true, false,
    false)), (String ((Ascii (false, false, false, false, false, true, false,
    false)), (String ((Ascii (true, false, false, false, false, true, true,
    false)), (String ((Ascii (false, true, false, false, false, true, true,
    false)), (String ((Ascii (true, true, false, false, true, true, true,
    false)), (String ((Ascii (false, false, false, false, false, true, false,
    false)), (String ((Ascii (true, true, true, true, false, true, true,
    false)), (String ((Ascii (false, true, true, false, true, true, true,
    false)), (String ((Ascii (true, false, true, false, false, true, true,
    false)), (String ((Ascii (false, true, false, false, true, true, true,
    false)), (String ((Ascii (false, true, true, false, false, true, true,
    false)), (String ((Ascii (false, false, true, true, false, true, true,
    false)), (String ((Ascii (true, true, true, true, false, true, true,
    false)), (String ((Ascii (true, true, true, false, true, true, true,
    false)), EmptyString)))))))))))))))))))))))))))))))) (Z.abs a)

(** val sub64 : z -> z -> z res **)

let sub64 a b =
  chk64 (String ((Ascii (true, false, false, true, false, true, true,
    false)), (String ((Ascii (false, true, true, false, true, true, false,
    false)), (String ((Ascii (false, false, true, false, true, true, false,
    false)), (String ((Ascii (false, false, false, false, false, true, false,
    false)), (String ((Ascii (true, true, false, false, true, true, true,
    false)), (String ((Ascii (true, false, true, false, true, true, true,
    false)), (String ((Ascii (false, true, false, false, false, true, true,
    false)), (String ((Ascii (false, false, false, false, false, true, false,
    false)), (String ((Ascii (true, true, true, true, false, true, true,
    false)), (String ((Ascii (false, true, true, false, true, true, true,
    false)), (String ((Ascii (true, false, true, false, false, true, true,
    false)), (String ((Ascii (false, true, false, false, true, true, true,
    false)), (String ((Ascii (false, true, true, false, false, true, true,
    false)), (String ((Ascii (false, false, true, true, false, true, true,
    false)), (String ((Ascii (true, true, true, true, false, true, true,
    false)), (String ((Ascii (true, true, true, false, true, true, true,
    false)), EmptyString)))))))))))))))))))))))))))))))) (Z.sub a b)

(** val mul64 : z -> z -> z res **)

let mul64 a b =
  chk64 (String ((Ascii (true, false, false, true, false, true, true,
    false)), (String ((Ascii (false, true, true, false, true, true, false,
    false)), (String ((Ascii (false, false, true, false, true, true, false,
    false)), (String ((Ascii (false, false, false, false, false, true, false,
    false)), (String ((Ascii (true, false, true, true, false, true, true,
    false)), (String ((Ascii (true, false, true, false, true, true, true,
    false)), (String ((Ascii (false, false, true, true, false, true, true,
    false)), (String ((Ascii (false, false, false, false, false, true, false,
    false)), (String ((Ascii (true, true, true, true, false, true, true,
    false)), (String ((Ascii (false, true, true, false, true, true, true,
    false)), (String ((Ascii (true, false, true, false, false, true, true,
    false)), (String ((Ascii (false, true, false, false, true, true, true,
    false)), (String ((Ascii (false, true, true, false, false, true, true,
    false)), (String ((Ascii (false, false, true, true, false, true, true,
    false)), (String ((Ascii (true, true, true, true, false, true, true,
    false)), (String ((Ascii (true, true, true, false, true, true, true,
    false)), EmptyString)))))))))))))))))))))))))))))))) (Z.mul a b)

(** val abs64 : z -> z res **)

let abs64 a =
  chk64 (String ((Ascii (true, false, false, true, false, true, true,
    false)), (String ((Ascii (false, true, true, false, true, true, false,
    false)), (String ((Ascii (false, false, true, false, true, true, false,
    false)), (String ((Ascii (false, false, false, false, false, true, false,
    false)), (String ((Ascii (true, false, false, false, false, true, true,
    false)), (String ((Ascii (false, true, false, false, false, true, true,
    false)), (String ((Ascii (true, true, false, false, true, true, true,
    false)), (String ((Ascii (false, false, false, false, false, true, false,
    false)), (String ((Ascii (true, true, true, true, false, true, true,
    false)), (String ((Ascii (false, true, true, false, true, true, true,
    false)), (String ((Ascii (true, false, true, false, false, true, true,
    false)), (String ((Ascii (false, true, false, false, true, true, true,
    false)), (String ((Ascii (false, true, true, false, false, true, true,
    false)), (String ((Ascii (false, false, true, true, false, true, true,
    false)), (String ((Ascii (true, true, true, true, false, true, true,
    false)), (String ((Ascii (true, true, true, false, true, true, true,
    false)), EmptyString)))))))))))))))))))))))))))))))) (Z.abs a)

(** val shr : z -> z -> z **)

let shr =
  Z.shiftr

(** val shl32 : z -> z -> z **)

let shl32 a n0 =
  wrap32 (Z.mul a (Z.pow (Zpos (XO XH)) n0))

(** val shl64 : z -> z -> z **)

let shl64 a n0 =
  wrap64 (Z.mul a (Z.pow (Zpos (XO XH)) n0))

type params = { p_name : z; p_k : nat; p_l : nat; p_eta : z; p_tau : 
                z; p_lambda : z; p_gamma1 : z; p_gamma2 : z; p_omega : 
                z; p_beta : z; p_lambda_div4 : z; p_w1_len : z; p_sk_len : 
                z; p_pk_len : z; p_sig_len : z }

(** val q : z **)

let q =
  Zpos (XI (XO (XO (XO (XO (XO (XO (XO (XO (XO (XO (XO (XO (XI (XI (XI (XI
    (XI (XI (XI (XI (XI XH))))))))))))))))))))))

(** val zETA : z **)

let zETA =
  Zpos (XI (XO (XO (XI (XI (XO (XI (XI (XO (XI XH))))))))))

(** val d : z **)

let d =
  Zpos (XI (XO (XI XH)))

(** val p44 : params **)

let p44 =
  { p_name = (Zpos (XO (XO (XI (XI (XO XH)))))); p_k = (S (S (S (S O))));
    p_l = (S (S (S (S O)))); p_eta = (Zpos (XO XH)); p_tau = (Zpos (XI (XI
    (XI (XO (XO XH)))))); p_lambda = (Zpos (XO (XO (XO (XO (XO (XO (XO
    XH)))))))); p_gamma1 = (Zpos (XO (XO (XO (XO (XO (XO (XO (XO (XO (XO (XO
    (XO (XO (XO (XO (XO (XO XH)))))))))))))))))); p_gamma2 = (Zpos (XO (XO
    (XO (XO (XO (XO (XO (XO (XO (XO (XI (XO (XI (XI (XI (XO
    XH))))))))))))))))); p_omega = (Zpos (XO (XO (XO (XO (XI (XO XH)))))));
    p_beta = (Zpos (XO (XI (XI (XI (XO (XO XH))))))); p_lambda_div4 = (Zpos
    (XO (XO (XO (XO (XO XH)))))); p_w1_len = (Zpos (XO (XO (XO (XO (XO (XO
    (XO (XO (XI XH)))))))))); p_sk_len = (Zpos (XO (XO (XO (XO (XO (XO (XO
    (XO (XO (XI (XO XH)))))))))))); p_pk_len = (Zpos (XO (XO (XO (XO (XO (XI
    (XO (XO (XI (XO XH))))))))))); p_sig_len = (Zpos (XO (XO (XI (XO (XI (XI
    (XI (XO (XI (XO (XO XH)))))))))))) }

(** val p65 : params **)

let p65 =
  { p_name = (Zpos (XI (XO (XO (XO (XO (XO XH))))))); p_k = (S (S (S (S (S (S
    O)))))); p_l = (S (S (S (S (S O))))); p_eta = (Zpos (XO (XO XH)));
    p_tau = (Zpos (XI (XO (XO (XO (XI XH)))))); p_lambda = (Zpos (XO (XO (XO
    (XO (XO (XO (XI XH)))))))); p_gamma1 = (Zpos (XO (XO (XO (XO (XO (XO (XO
    (XO (XO (XO (XO (XO (XO (XO (XO (XO (XO (XO (XO XH))))))))))))))))))));
    p_gamma2 = (Zpos (XO (XO (XO (XO (XO (XO (XO (XO (XI (XI (XI (XI (XI (XI
    (XI (XI (XI XH)))))))))))))))))); p_omega = (Zpos (XI (XI (XI (XO (XI
    XH)))))); p_beta = (Zpos (XO (XO (XI (XO (XO (XO (XI XH))))))));
    p_lambda_div4 = (Zpos (XO (XO (XO (XO (XI XH)))))); p_w1_len = (Zpos (XO
    (XO (XO (XO (XO (XO (XO (XO (XI XH)))))))))); p_sk_len = (Zpos (XO (XO
    (XO (XO (XO (XO (XI (XI (XI (XI (XI XH)))))))))))); p_pk_len = (Zpos (XO
    (XO (XO (XO (XO (XI (XO (XI (XI (XI XH))))))))))); p_sig_len = (Zpos (XI
    (XO (XI (XI (XO (XI (XI (XI (XO (XO (XI XH)))))))))))) }

(** val p87 : params **)

let p87 =
  { p_name = (Zpos (XI (XI (XI (XO (XI (XO XH))))))); p_k = (S (S (S (S (S (S
    (S (S O)))))))); p_l = (S (S (S (S (S (S (S O))))))); p_eta = (Zpos (XO
    XH)); p_tau = (Zpos (XO (XO (XI (XI (XI XH)))))); p_lambda = (Zpos (XO
    (XO (XO (XO (XO (XO (XO (XO XH))))))))); p_gamma1 = (Zpos (XO (XO (XO (XO
    (XO (XO (XO (XO (XO (XO (XO (XO (XO (XO (XO (XO (XO (XO (XO
    XH)))))))))))))))))))); p_gamma2 = (Zpos (XO (XO (XO (XO (XO (XO (XO (XO
    (XI (XI (XI (XI (XI (XI (XI (XI (XI XH)))))))))))))))))); p_omega = (Zpos
    (XI (XI (XO (XI (XO (XO XH))))))); p_beta = (Zpos (XO (XO (XO (XI (XI (XI
    XH))))))); p_lambda_div4 = (Zpos (XO (XO (XO (XO (XO (XO XH)))))));
    p_w1_len = (Zpos (XO (XO (XO (XO (XO (XO (XO (XO (XO (XO XH)))))))))));
    p_sk_len = (Zpos (XO (XO (XO (XO (XO (XI (XO (XO (XI (XI (XO (XO
    XH))))))))))))); p_pk_len = (Zpos (XO (XO (XO (XO (XO (XI (XO (XO (XO (XI
    (XO XH)))))))))))); p_sig_len = (Zpos (XI (XI (XO (XO (XI (XO (XO (XO (XO
    (XI (XO (XO XH))))))))))))) }

(** val qINV : z **)

let qINV =
  Zpos (XI (XO (XO (XO (XO (XO (XO (XO (XO (XO (XO (XO (XO (XI (XO (XO (XO
    (XO (XO (XO (XO (XO (XO (XI (XI XH)))))))))))))))))))))))))

(** val f_MONT : z **)

let f_MONT =
  Zpos (XO (XI (XI (XI (XI (XI (XI (XI (XI (XI (XI (XI (XI XH)))))))))))))

(** val ctx_max_try_sign_with_rng : z **)

let ctx_max_try_sign_with_rng =
  Zpos (XI (XI (XI (XI (XI (XI (XI XH)))))))

(** val ctx_max_try_hash_sign_with_rng : z **)

let ctx_max_try_hash_sign_with_rng =
  Zpos (XI (XI (XI (XI (XI (XI (XI XH)))))))

(** val ctx_max_internal_sign : z **)

let ctx_max_internal_sign =
  Zpos (XI (XI (XI (XI (XI (XI (XI XH)))))))

(** val ctx_max_verify : z **)

let ctx_max_verify =
  Zpos (XI (XI (XI (XI (XI (XI (XI XH)))))))

(** val ctx_max_hash_verify : z **)

let ctx_max_hash_verify =
  Zpos (XI (XI (XI (XI (XI (XI (XI XH)))))))

(** val ctx_max_internal_verify : z **)

let ctx_max_internal_verify =
  Zpos (XI (XI (XI (XI (XI (XI (XI XH)))))))

(** val rnd_len_try_sign_with_rng : z **)

let rnd_len_try_sign_with_rng =
  Zpos (XO (XO (XO (XO (XO XH)))))

(** val rnd_len_try_hash_sign_with_rng : z **)

let rnd_len_try_hash_sign_with_rng =
  Zpos (XO (XO (XO (XO (XO XH)))))

(** val xi_len : z **)

let xi_len =
  Zpos (XO (XO (XO (XO (XO XH)))))

(** val dom_pure : z **)

let dom_pure =
  Z0

(** val dom_hash : z **)

let dom_hash =
  Zpos XH

(** val len_byte : z -> z **)

let len_byte n0 =
  Z.modulo n0 (Zpos (XO (XO (XO (XO (XO (XO (XO (XO XH)))))))))

type ph =
| SHA256
| SHA512
| SHAKE128

type hashFn =
| HF_sha256
| HF_sha512
| HF_shake128

(** val ph_oid : ph -> z list **)

let ph_oid = function
| SHA256 ->
  (Zpos (XO (XI XH))) :: ((Zpos (XI (XO (XO XH)))) :: ((Zpos (XO (XO (XO (XO
    (XO (XI XH))))))) :: ((Zpos (XO (XI (XI (XO (XO (XO (XO
    XH)))))))) :: ((Zpos (XO (XO (XO (XI (XO (XO XH))))))) :: ((Zpos
    XH) :: ((Zpos (XI (XO (XI (XO (XO (XI XH))))))) :: ((Zpos (XI
    XH)) :: ((Zpos (XO (XO XH))) :: ((Zpos (XO XH)) :: ((Zpos
    XH) :: []))))))))))
| SHA512 ->
  (Zpos (XO (XI XH))) :: ((Zpos (XI (XO (XO XH)))) :: ((Zpos (XO (XO (XO (XO
    (XO (XI XH))))))) :: ((Zpos (XO (XI (XI (XO (XO (XO (XO
    XH)))))))) :: ((Zpos (XO (XO (XO (XI (XO (XO XH))))))) :: ((Zpos
    XH) :: ((Zpos (XI (XO (XI (XO (XO (XI XH))))))) :: ((Zpos (XI
    XH)) :: ((Zpos (XO (XO XH))) :: ((Zpos (XO XH)) :: ((Zpos (XI
    XH)) :: []))))))))))
| SHAKE128 ->
  (Zpos (XO (XI XH))) :: ((Zpos (XI (XO (XO XH)))) :: ((Zpos (XO (XO (XO (XO
    (XO (XI XH))))))) :: ((Zpos (XO (XI (XI (XO (XO (XO (XO
    XH)))))))) :: ((Zpos (XO (XO (XO (XI (XO (XO XH))))))) :: ((Zpos
    XH) :: ((Zpos (XI (XO (XI (XO (XO (XI XH))))))) :: ((Zpos (XI
    XH)) :: ((Zpos (XO (XO XH))) :: ((Zpos (XO XH)) :: ((Zpos (XI (XI (XO
    XH)))) :: []))))))))))

(** val ph_fn : ph -> hashFn **)

let ph_fn = function
| SHA256 -> HF_sha256
| SHA512 -> HF_sha512
| SHAKE128 -> HF_shake128

(** val ph_len : ph -> z **)

let ph_len = function
| SHA512 -> Zpos (XO (XO (XO (XO (XO (XO XH))))))
| _ -> Zpos (XO (XO (XO (XO (XO XH)))))

(** val ph_written : ph -> z **)

let ph_written = function
| SHA512 -> Zpos (XO (XO (XO (XO (XO (XO XH))))))
| _ -> Zpos (XO (XO (XO (XO (XO XH)))))

(** val mask64 : n **)

let mask64 =
  Npos (XI (XI (XI (XI (XI (XI (XI (XI (XI (XI (XI (XI (XI (XI (XI (XI (XI
    (XI (XI (XI (XI (XI (XI (XI (XI (XI (XI (XI (XI (XI (XI (XI (XI (XI (XI
    (XI (XI (XI (XI (XI (XI (XI (XI (XI (XI (XI (XI (XI (XI (XI (XI (XI (XI
    (XI (XI (XI (XI (XI (XI (XI (XI (XI (XI
    XH)))))))))))))))))))))))))))))))))))))))))))))))))))))))))))))))

(** val rotl : n -> n -> n **)

let rotl x n0 =
  if N.eqb n0 N0
  then x
  else N.coq_lor
         (N.shiftl
           (N.coq_land x
             (N.ones (N.sub (Npos (XO (XO (XO (XO (XO (XO XH))))))) n0))) n0)
         (N.shiftr x (N.sub (Npos (XO (XO (XO (XO (XO (XO XH))))))) n0))

(** val not64 : n -> n **)

let not64 x =
  N.coq_lxor x mask64

(** val rC : n list **)

let rC =
  (Npos XH) :: ((Npos (XO (XI (XO (XO (XO (XO (XO (XI (XO (XO (XO (XO (XO (XO
    (XO XH)))))))))))))))) :: ((Npos (XO (XI (XO (XI (XO (XO (XO (XI (XO (XO
    (XO (XO (XO (XO (XO (XI (XO (XO (XO (XO (XO (XO (XO (XO (XO (XO (XO (XO
    (XO (XO (XO (XO (XO (XO (XO (XO (XO (XO (XO (XO (XO (XO (XO (XO (XO (XO
    (XO (XO (XO (XO (XO (XO (XO (XO (XO (XO (XO (XO (XO (XO (XO (XO (XO
    XH)))))))))))))))))))))))))))))))))))))))))))))))))))))))))))))))) :: ((Npos
    (XO (XO (XO (XO (XO (XO (XO (XO (XO (XO (XO (XO (XO (XO (XO (XI (XO (XO
    (XO (XO (XO (XO (XO (XO (XO (XO (XO (XO (XO (XO (XO (XI (XO (XO (XO (XO
    (XO (XO (XO (XO (XO (XO (XO (XO (XO (XO (XO (XO (XO (XO (XO (XO (XO (XO
    (XO (XO (XO (XO (XO (XO (XO (XO (XO
    XH)))))))))))))))))))))))))))))))))))))))))))))))))))))))))))))))) :: ((Npos
    (XI (XI (XO (XI (XO (XO (XO (XI (XO (XO (XO (XO (XO (XO (XO
    XH)))))))))))))))) :: ((Npos (XI (XO (XO (XO (XO (XO (XO (XO (XO (XO (XO
    (XO (XO (XO (XO (XO (XO (XO (XO (XO (XO (XO (XO (XO (XO (XO (XO (XO (XO
    (XO (XO XH)))))))))))))))))))))))))))))))) :: ((Npos (XI (XO (XO (XO (XO
    (XO (XO (XI (XO (XO (XO (XO (XO (XO (XO (XI (XO (XO (XO (XO (XO (XO (XO
    (XO (XO (XO (XO (XO (XO (XO (XO (XI (XO (XO (XO (XO (XO (XO (XO (XO (XO
    (XO (XO (XO (XO (XO (XO (XO (XO (XO (XO (XO (XO (XO (XO (XO (XO (XO (XO
    (XO (XO (XO (XO
    XH)))))))))))))))))))))))))))))))))))))))))))))))))))))))))))))))) :: ((Npos
    (XI (XO (XO (XI (XO (XO (XO (XO (XO (XO (XO (XO (XO (XO (XO (XI (XO (XO
    (XO (XO (XO (XO (XO (XO (XO (XO (XO (XO (XO (XO (XO (XO (XO (XO (XO (XO
    (XO (XO (XO (XO (XO (XO (XO (XO (XO (XO (XO (XO (XO (XO (XO (XO (XO (XO
    (XO (XO (XO (XO (XO (XO (XO (XO (XO
    XH)))))))))))))))))))))))))))))))))))))))))))))))))))))))))))))))) :: ((Npos
    (XO (XI (XO (XI (XO (XO (XO XH)))))))) :: ((Npos (XO (XO (XO (XI (XO (XO
    (XO XH)))))))) :: ((Npos (XI (XO (XO (XI (XO (XO (XO (XO (XO (XO (XO (XO
    (XO (XO (XO (XI (XO (XO (XO (XO (XO (XO (XO (XO (XO (XO (XO (XO (XO (XO
    (XO XH)))))))))))))))))))))))))))))))) :: ((Npos (XO (XI (XO (XI (XO (XO
    (XO (XO (XO (XO (XO (XO (XO (XO (XO (XO (XO (XO (XO (XO (XO (XO (XO (XO
    (XO (XO (XO (XO (XO (XO (XO XH)))))))))))))))))))))))))))))))) :: ((Npos
    (XI (XI (XO (XI (XO (XO (XO (XI (XO (XO (XO (XO (XO (XO (XO (XI (XO (XO
    (XO (XO (XO (XO (XO (XO (XO (XO (XO (XO (XO (XO (XO
    XH)))))))))))))))))))))))))))))))) :: ((Npos (XI (XI (XO (XI (XO (XO (XO
    (XI (XO (XO (XO (XO (XO (XO (XO (XO (XO (XO (XO (XO (XO (XO (XO (XO (XO
    (XO (XO (XO (XO (XO (XO (XO (XO (XO (XO (XO (XO (XO (XO (XO (XO (XO (XO
    (XO (XO (XO (XO (XO (XO (XO (XO (XO (XO (XO (XO (XO (XO (XO (XO (XO (XO
    (XO (XO
    XH)))))))))))))))))))))))))))))))))))))))))))))))))))))))))))))))) :: ((Npos
    (XI (XO (XO (XI (XO (XO (XO (XI (XO (XO (XO (XO (XO (XO (XO (XI (XO (XO
    (XO (XO (XO (XO (XO (XO (XO (XO (XO (XO (XO (XO (XO (XO (XO (XO (XO (XO
    (XO (XO (XO (XO (XO (XO (XO (XO (XO (XO (XO (XO (XO (XO (XO (XO (XO (XO
    (XO (XO (XO (XO (XO (XO (XO (XO (XO
    XH)))))))))))))))))))))))))))))))))))))))))))))))))))))))))))))))) :: ((Npos
    (XI (XI (XO (XO (XO (XO (XO (XO (XO (XO (XO (XO (XO (XO (XO (XI (XO (XO
    (XO (XO (XO (XO (XO (XO (XO (XO (XO (XO (XO (XO (XO (XO (XO (XO (XO (XO
    (XO (XO (XO (XO (XO (XO (XO (XO (XO (XO (XO (XO (XO (XO (XO (XO (XO (XO
    (XO (XO (XO (XO (XO (XO (XO (XO (XO
    XH)))))))))))))))))))))))))))))))))))))))))))))))))))))))))))))))) :: ((Npos
    (XO (XI (XO (XO (XO (XO (XO (XO (XO (XO (XO (XO (XO (XO (XO (XI (XO (XO
    (XO (XO (XO (XO (XO (XO (XO (XO (XO (XO (XO (XO (XO (XO (XO (XO (XO (XO
    (XO (XO (XO (XO (XO (XO (XO (XO (XO (XO (XO (XO (XO (XO (XO (XO (XO (XO
    (XO (XO (XO (XO (XO (XO (XO (XO (XO
    XH)))))))))))))))))))))))))))))))))))))))))))))))))))))))))))))))) :: ((Npos
    (XO (XO (XO (XO (XO (XO (XO (XI (XO (XO (XO (XO (XO (XO (XO (XO (XO (XO
    (XO (XO (XO (XO (XO (XO (XO (XO (XO (XO (XO (XO (XO (XO (XO (XO (XO (XO
    (XO (XO (XO (XO (XO (XO (XO (XO (XO (XO (XO (XO (XO (XO (XO (XO (XO (XO
    (XO (XO (XO (XO (XO (XO (XO (XO (XO
    XH)))))))))))))))))))))))))))))))))))))))))))))))))))))))))))))))) :: ((Npos
    (XO (XI (XO (XI (XO (XO (XO (XO (XO (XO (XO (XO (XO (XO (XO
    XH)))))))))))))))) :: ((Npos (XO (XI (XO (XI (XO (XO (XO (XO (XO (XO (XO
    (XO (XO (XO (XO (XO (XO (XO (XO (XO (XO (XO (XO (XO (XO (XO (XO (XO (XO
    (XO (XO (XI (XO (XO (XO (XO (XO (XO (XO (XO (XO (XO (XO (XO (XO (XO (XO
    (XO (XO (XO (XO (XO (XO (XO (XO (XO (XO (XO (XO (XO (XO (XO (XO
    XH)))))))))))))))))))))))))))))))))))))))))))))))))))))))))))))))) :: ((Npos
    (XI (XO (XO (XO (XO (XO (XO (XI (XO (XO (XO (XO (XO (XO (XO (XI (XO (XO
    (XO (XO (XO (XO (XO (XO (XO (XO (XO (XO (XO (XO (XO (XI (XO (XO (XO (XO
    (XO (XO (XO (XO (XO (XO (XO (XO (XO (XO (XO (XO (XO (XO (XO (XO (XO (XO
    (XO (XO (XO (XO (XO (XO (XO (XO (XO
    XH)))))))))))))))))))))))))))))))))))))))))))))))))))))))))))))))) :: ((Npos
    (XO (XO (XO (XO (XO (XO (XO (XI (XO (XO (XO (XO (XO (XO (XO (XI (XO (XO
    (XO (XO (XO (XO (XO (XO (XO (XO (XO (XO (XO (XO (XO (XO (XO (XO (XO (XO
    (XO (XO (XO (XO (XO (XO (XO (XO (XO (XO (XO (XO (XO (XO (XO (XO (XO (XO
    (XO (XO (XO (XO (XO (XO (XO (XO (XO
    XH)))))))))))))))))))))))))))))))))))))))))))))))))))))))))))))))) :: ((Npos
    (XI (XO (XO (XO (XO (XO (XO (XO (XO (XO (XO (XO (XO (XO (XO (XO (XO (XO
    (XO (XO (XO (XO (XO (XO (XO (XO (XO (XO (XO (XO (XO
    XH)))))))))))))))))))))))))))))))) :: ((Npos (XO (XO (XO (XI (XO (XO (XO
    (XO (XO (XO (XO (XO (XO (XO (XO (XI (XO (XO (XO (XO (XO (XO (XO (XO (XO
    (XO (XO (XO (XO (XO (XO (XI (XO (XO (XO (XO (XO (XO (XO (XO (XO (XO (XO
    (XO (XO (XO (XO (XO (XO (XO (XO (XO (XO (XO (XO (XO (XO (XO (XO (XO (XO
    (XO (XO
    XH)))))))))))))))))))))))))))))))))))))))))))))))))))))))))))))))) :: [])))))))))))))))))))))))

(** val x5 : n -> n -> n -> n -> n -> n **)

let x5 a b c d0 e =
  N.coq_lxor a (N.coq_lxor b (N.coq_lxor c (N.coq_lxor d0 e)))

(** val chi : n -> n -> n -> n **)

let chi a b c =
  N.coq_lxor a (N.coq_land (not64 b) c)

(** val round : n -> n list -> n list **)

let round rc s = match s with
| [] -> s
| a00 :: l ->
  (match l with
   | [] -> s
   | a10 :: l0 ->
     (match l0 with
      | [] -> s
      | a20 :: l1 ->
        (match l1 with
         | [] -> s
         | a30 :: l2 ->
           (match l2 with
            | [] -> s
            | a40 :: l3 ->
              (match l3 with
               | [] -> s
               | a01 :: l4 ->
                 (match l4 with
                  | [] -> s
                  | a11 :: l5 ->
                    (match l5 with
                     | [] -> s
                     | a21 :: l6 ->
                       (match l6 with
                        | [] -> s
                        | a31 :: l7 ->
                          (match l7 with
                           | [] -> s
                           | a41 :: l8 ->
                             (match l8 with
                              | [] -> s
                              | a02 :: l9 ->
                                (match l9 with
                                 | [] -> s
                                 | a12 :: l10 ->
                                   (match l10 with
                                    | [] -> s
                                    | a22 :: l11 ->
                                      (match l11 with
                                       | [] -> s
                                       | a32 :: l12 ->
                                         (match l12 with
                                          | [] -> s
                                          | a42 :: l13 ->
                                            (match l13 with
                                             | [] -> s
                                             | a03 :: l14 ->
                                               (match l14 with
                                                | [] -> s
                                                | a13 :: l15 ->
                                                  (match l15 with
                                                   | [] -> s
                                                   | a23 :: l16 ->
                                                     (match l16 with
                                                      | [] -> s
                                                      | a33 :: l17 ->
                                                        (match l17 with
                                                         | [] -> s
                                                         | a43 :: l18 ->
                                                           (match l18 with
                                                            | [] -> s
                                                            | a04 :: l19 ->
                                                              (match l19 with
                                                               | [] -> s
                                                               | a14 :: l20 ->
                                                                 (match l20 with
                                                                  | [] -> s
                                                                  | a24 :: l21 ->
                                                                    (match l21 with
                                                                    | [] -> s
                                                                    | a34 :: l22 ->
                                                                    (match l22 with
                                                                    | [] -> s
                                                                    | a44 :: l23 ->
                                                                    (match l23 with
                                                                    | [] ->
                                                                    let c0 =
                                                                    x5 a00
                                                                    a01 a02
                                                                    a03 a04
                                                                    in
                                                                    let c1 =
                                                                    x5 a10
                                                                    a11 a12
                                                                    a13 a14
                                                                    in
                                                                    let c2 =
                                                                    x5 a20
                                                                    a21 a22
                                                                    a23 a24
                                                                    in
                                                                    let c3 =
                                                                    x5 a30
                                                                    a31 a32
                                                                    a33 a34
                                                                    in
                                                                    let c4 =
                                                                    x5 a40
                                                                    a41 a42
                                                                    a43 a44
                                                                    in
                                                                    let d0 =
                                                                    N.coq_lxor
                                                                    c4
                                                                    (rotl c1
                                                                    (Npos XH))
                                                                    in
                                                                    let d1 =
                                                                    N.coq_lxor
                                                                    c0
                                                                    (rotl c2
                                                                    (Npos XH))
                                                                    in
                                                                    let d2 =
                                                                    N.coq_lxor
                                                                    c1
                                                                    (rotl c3
                                                                    (Npos XH))
                                                                    in
                                                                    let d3 =
                                                                    N.coq_lxor
                                                                    c2
                                                                    (rotl c4
                                                                    (Npos XH))
                                                                    in
                                                                    let d4 =
                                                                    N.coq_lxor
                                                                    c3
                                                                    (rotl c0
                                                                    (Npos XH))
                                                                    in
                                                                    let a05 =
                                                                    N.coq_lxor
                                                                    a00 d0
                                                                    in
                                                                    let a06 =
                                                                    N.coq_lxor
                                                                    a01 d0
                                                                    in
                                                                    let a07 =
                                                                    N.coq_lxor
                                                                    a02 d0
                                                                    in
                                                                    let a08 =
                                                                    N.coq_lxor
                                                                    a03 d0
                                                                    in
                                                                    let a09 =
                                                                    N.coq_lxor
                                                                    a04 d0
                                                                    in
                                                                    let a15 =
                                                                    N.coq_lxor
                                                                    a10 d1
                                                                    in
                                                                    let a16 =
                                                                    N.coq_lxor
                                                                    a11 d1
                                                                    in
                                                                    let a17 =
                                                                    N.coq_lxor
                                                                    a12 d1
                                                                    in
                                                                    let a18 =
                                                                    N.coq_lxor
                                                                    a13 d1
                                                                    in
                                                                    let a19 =
                                                                    N.coq_lxor
                                                                    a14 d1
                                                                    in
                                                                    let a25 =
                                                                    N.coq_lxor
                                                                    a20 d2
                                                                    in
                                                                    let a26 =
                                                                    N.coq_lxor
                                                                    a21 d2
                                                                    in
                                                                    let a27 =
                                                                    N.coq_lxor
                                                                    a22 d2
                                                                    in
                                                                    let a28 =
                                                                    N.coq_lxor
                                                                    a23 d2
                                                                    in
                                                                    let a29 =
                                                                    N.coq_lxor
                                                                    a24 d2
                                                                    in
                                                                    let a35 =
                                                                    N.coq_lxor
                                                                    a30 d3
                                                                    in
                                                                    let a36 =
                                                                    N.coq_lxor
                                                                    a31 d3
                                                                    in
                                                                    let a37 =
                                                                    N.coq_lxor
                                                                    a32 d3
                                                                    in
                                                                    let a38 =
                                                                    N.coq_lxor
                                                                    a33 d3
                                                                    in
                                                                    let a39 =
                                                                    N.coq_lxor
                                                                    a34 d3
                                                                    in
                                                                    let a45 =
                                                                    N.coq_lxor
                                                                    a40 d4
                                                                    in
                                                                    let a46 =
                                                                    N.coq_lxor
                                                                    a41 d4
                                                                    in
                                                                    let a47 =
                                                                    N.coq_lxor
                                                                    a42 d4
                                                                    in
                                                                    let a48 =
                                                                    N.coq_lxor
                                                                    a43 d4
                                                                    in
                                                                    let a49 =
                                                                    N.coq_lxor
                                                                    a44 d4
                                                                    in
                                                                    let b13 =
                                                                    rotl a06
                                                                    (Npos (XO
                                                                    (XO (XI
                                                                    (XO (XO
                                                                    XH))))))
                                                                    in
                                                                    let b21 =
                                                                    rotl a07
                                                                    (Npos (XI
                                                                    XH))
                                                                    in
                                                                    let b34 =
                                                                    rotl a08
                                                                    (Npos (XI
                                                                    (XO (XO
                                                                    (XI (XO
                                                                    XH))))))
                                                                    in
                                                                    let b42 =
                                                                    rotl a09
                                                                    (Npos (XO
                                                                    (XI (XO
                                                                    (XO
                                                                    XH)))))
                                                                    in
                                                                    let b02 =
                                                                    rotl a15
                                                                    (Npos XH)
                                                                    in
                                                                    let b10 =
                                                                    rotl a16
                                                                    (Npos (XO
                                                                    (XO (XI
                                                                    (XI (XO
                                                                    XH))))))
                                                                    in
                                                                    let b23 =
                                                                    rotl a17
                                                                    (Npos (XO
                                                                    (XI (XO
                                                                    XH))))
                                                                    in
                                                                    let b31 =
                                                                    rotl a18
                                                                    (Npos (XI
                                                                    (XO (XI
                                                                    (XI (XO
                                                                    XH))))))
                                                                    in
                                                                    let b44 =
                                                                    rotl a19
                                                                    (Npos (XO
                                                                    XH))
                                                                    in
                                                                    let b04 =
                                                                    rotl a25
                                                                    (Npos (XO
                                                                    (XI (XI
                                                                    (XI (XI
                                                                    XH))))))
                                                                    in
                                                                    let b12 =
                                                                    rotl a26
                                                                    (Npos (XO
                                                                    (XI XH)))
                                                                    in
                                                                    let b20 =
                                                                    rotl a27
                                                                    (Npos (XI
                                                                    (XI (XO
                                                                    (XI (XO
                                                                    XH))))))
                                                                    in
                                                                    let b33 =
                                                                    rotl a28
                                                                    (Npos (XI
                                                                    (XI (XI
                                                                    XH))))
                                                                    in
                                                                    let b41 =
                                                                    rotl a29
                                                                    (Npos (XI
                                                                    (XO (XI
                                                                    (XI (XI
                                                                    XH))))))
                                                                    in
                                                                    let b01 =
                                                                    rotl a35
                                                                    (Npos (XO
                                                                    (XO (XI
                                                                    (XI
                                                                    XH)))))
                                                                    in
                                                                    let b14 =
                                                                    rotl a36
                                                                    (Npos (XI
                                                                    (XI (XI
                                                                    (XO (XI
                                                                    XH))))))
                                                                    in
                                                                    let b22 =
                                                                    rotl a37
                                                                    (Npos (XI
                                                                    (XO (XO
                                                                    (XI
                                                                    XH)))))
                                                                    in
                                                                    let b30 =
                                                                    rotl a38
                                                                    (Npos (XI
                                                                    (XO (XI
                                                                    (XO
                                                                    XH)))))
                                                                    in
                                                                    let b43 =
                                                                    rotl a39
                                                                    (Npos (XO
                                                                    (XO (XO
                                                                    (XI (XI
                                                                    XH))))))
                                                                    in
                                                                    let b03 =
                                                                    rotl a45
                                                                    (Npos (XI
                                                                    (XI (XO
                                                                    (XI
                                                                    XH)))))
                                                                    in
                                                                    let b11 =
                                                                    rotl a46
                                                                    (Npos (XO
                                                                    (XO (XI
                                                                    (XO
                                                                    XH)))))
                                                                    in
                                                                    let b24 =
                                                                    rotl a47
                                                                    (Npos (XI
                                                                    (XI (XI
                                                                    (XO (XO
                                                                    XH))))))
                                                                    in
                                                                    let b32 =
                                                                    rotl a48
                                                                    (Npos (XO
                                                                    (XO (XO
                                                                    XH))))
                                                                    in
                                                                    let b40 =
                                                                    rotl a49
                                                                    (Npos (XO
                                                                    (XI (XI
                                                                    XH))))
                                                                    in
                                                                    (N.coq_lxor
                                                                    (chi a05
                                                                    b10 b20)
                                                                    rc) :: (
                                                                    (chi b10
                                                                    b20 b30) :: (
                                                                    (chi b20
                                                                    b30 b40) :: (
                                                                    (chi b30
                                                                    b40 a05) :: (
                                                                    (chi b40
                                                                    a05 b10) :: (
                                                                    (chi b01
                                                                    b11 b21) :: (
                                                                    (chi b11
                                                                    b21 b31) :: (
                                                                    (chi b21
                                                                    b31 b41) :: (
                                                                    (chi b31
                                                                    b41 b01) :: (
                                                                    (chi b41
                                                                    b01 b11) :: (
                                                                    (chi b02
                                                                    b12 b22) :: (
                                                                    (chi b12
                                                                    b22 b32) :: (
                                                                    (chi b22
                                                                    b32 b42) :: (
                                                                    (chi b32
                                                                    b42 b02) :: (
                                                                    (chi b42
                                                                    b02 b12) :: (
                                                                    (chi b03
                                                                    b13 b23) :: (
                                                                    (chi b13
                                                                    b23 b33) :: (
                                                                    (chi b23
                                                                    b33 b43) :: (
                                                                    (chi b33
                                                                    b43 b03) :: (
                                                                    (chi b43
                                                                    b03 b13) :: (
                                                                    (chi b04
                                                                    b14 b24) :: (
                                                                    (chi b14
                                                                    b24 b34) :: (
                                                                    (chi b24
                                                                    b34 b44) :: (
                                                                    (chi b34
                                                                    b44 b04) :: (
                                                                    (chi b44
                                                                    b04 b14) :: []))))))))))))))))))))))))
                                                                    | _ :: _ ->
                                                                    s)))))))))))))))))))))))))

(** val keccak_f : n list -> n list **)

let keccak_f s =
  fold_left (fun st rc -> round rc st) rC s

(** val lane_of_bytes : n list -> n **)

let rec lane_of_bytes = function
| [] -> N0
| b :: r ->
  N.add b
    (N.mul (Npos (XO (XO (XO (XO (XO (XO (XO (XO XH)))))))))
      (lane_of_bytes r))

(** val bytes_of_lane : nat -> n -> n list **)

let rec bytes_of_lane n0 x =
  match n0 with
  | O -> []
  | S n' ->
    (N.coq_land x (Npos (XI (XI (XI (XI (XI (XI (XI XH))))))))) :: (bytes_of_lane
                                                                    n'
                                                                    (N.shiftr
                                                                    x (Npos
                                                                    (XO (XO
                                                                    (XO
                                                                    XH))))))

(** val lanes_of_bytes : nat -> n list -> n list **)

let rec lanes_of_bytes nl bs =
  match nl with
  | O -> []
  | S n' ->
    (lane_of_bytes (firstn (S (S (S (S (S (S (S (S O)))))))) bs)) :: 
      (lanes_of_bytes n' (skipn (S (S (S (S (S (S (S (S O)))))))) bs))

(** val xor_into : n list -> n list -> n list **)

let rec xor_into s blk =
  match s with
  | [] -> (match blk with
           | [] -> s
           | _ :: _ -> [])
  | a :: s' ->
    (match blk with
     | [] -> s
     | b :: blk' -> (N.coq_lxor a b) :: (xor_into s' blk'))

(** val zero_state : n list **)

let zero_state =
  repeat N0 (S (S (S (S (S (S (S (S (S (S (S (S (S (S (S (S (S (S (S (S (S (S
    (S (S (S O)))))))))))))))))))))))))

(** val absorb : nat -> nat -> n list -> n list -> n list **)

let rec absorb rate nb s msg =
  match nb with
  | O -> s
  | S nb' ->
    let blk =
      lanes_of_bytes (Nat.div rate (S (S (S (S (S (S (S (S O)))))))))
        (firstn rate msg)
    in
    absorb rate nb' (keccak_f (xor_into s blk)) (skipn rate msg)

(** val pad : nat -> n -> n list -> n list **)

let pad rate suffix msg =
  let r = Nat.modulo (length msg) rate in
  let padlen = sub rate r in
  (match padlen with
   | O ->
     app msg
       (app (suffix :: [])
         (app (repeat N0 (sub padlen (S (S O)))) ((Npos (XO (XO (XO (XO (XO
           (XO (XO XH)))))))) :: [])))
   | S n0 ->
     (match n0 with
      | O ->
        app msg
          ((N.coq_lor suffix (Npos (XO (XO (XO (XO (XO (XO (XO XH))))))))) :: [])
      | S _ ->
        app msg
          (app (suffix :: [])
            (app (repeat N0 (sub padlen (S (S O)))) ((Npos (XO (XO (XO (XO
              (XO (XO (XO XH)))))))) :: [])))))

(** val state_bytes : nat -> n list -> n list **)

let state_bytes rate s =
  firstn rate (flat_map (bytes_of_lane (S (S (S (S (S (S (S (S O))))))))) s)

(** val squeeze : nat -> nat -> n list -> n list **)

let rec squeeze rate nb s =
  match nb with
  | O -> []
  | S nb' -> app (state_bytes rate s) (squeeze rate nb' (keccak_f s))

(** val sponge : nat -> n -> n list -> nat -> n list **)

let sponge rate suffix msg outlen =
  let p = pad rate suffix msg in
  let s = absorb rate (Nat.div (length p) rate) zero_state p in
  let nb = Nat.div (sub (add outlen rate) (S O)) rate in
  firstn outlen (squeeze rate nb s)

(** val shake128_N : n list -> nat -> n list **)

let shake128_N msg outlen =
  sponge (S (S (S (S (S (S (S (S (S (S (S (S (S (S (S (S (S (S (S (S (S (S (S
    (S (S (S (S (S (S (S (S (S (S (S (S (S (S (S (S (S (S (S (S (S (S (S (S
    (S (S (S (S (S (S (S (S (S (S (S (S (S (S (S (S (S (S (S (S (S (S (S (S
    (S (S (S (S (S (S (S (S (S (S (S (S (S (S (S (S (S (S (S (S (S (S (S (S
    (S (S (S (S (S (S (S (S (S (S (S (S (S (S (S (S (S (S (S (S (S (S (S (S
    (S (S (S (S (S (S (S (S (S (S (S (S (S (S (S (S (S (S (S (S (S (S (S (S
    (S (S (S (S (S (S (S (S (S (S (S (S (S (S (S (S (S (S (S (S (S (S (S (S
    (S
    O))))))))))))))))))))))))))))))))))))))))))))))))))))))))))))))))))))))))))))))))))))))))))))))))))))))))))))))))))))))))))))))))))))))))))))))))))))))))))))))))))))))))
    (Npos (XI (XI (XI (XI XH))))) msg outlen

(** val shake256_N : n list -> nat -> n list **)

let shake256_N msg outlen =
  sponge (S (S (S (S (S (S (S (S (S (S (S (S (S (S (S (S (S (S (S (S (S (S (S
    (S (S (S (S (S (S (S (S (S (S (S (S (S (S (S (S (S (S (S (S (S (S (S (S
    (S (S (S (S (S (S (S (S (S (S (S (S (S (S (S (S (S (S (S (S (S (S (S (S
    (S (S (S (S (S (S (S (S (S (S (S (S (S (S (S (S (S (S (S (S (S (S (S (S
    (S (S (S (S (S (S (S (S (S (S (S (S (S (S (S (S (S (S (S (S (S (S (S (S
    (S (S (S (S (S (S (S (S (S (S (S (S (S (S (S (S (S
    O))))))))))))))))))))))))))))))))))))))))))))))))))))))))))))))))))))))))))))))))))))))))))))))))))))))))))))))))))))))))))))))))))))))))
    (Npos (XI (XI (XI (XI XH))))) msg outlen

(** val shake128 : z list -> nat -> z list **)

let shake128 msg outlen =
  map Z.of_N (shake128_N (map Z.to_N msg) outlen)

(** val shake256 : z list -> nat -> z list **)

let shake256 msg outlen =
  map Z.of_N (shake256_N (map Z.to_N msg) outlen)

(** val wadd : n -> n -> n -> n **)

let wadd wbits =
  let modulus = N.pow (Npos (XO XH)) wbits in
  (fun a b -> N.modulo (N.add a b) modulus)

(** val rotr : n -> n -> n -> n **)

let rotr wbits x n0 =
  N.coq_lor (N.shiftr x n0)
    (N.coq_land (N.shiftl x (N.sub wbits n0)) (N.ones wbits))

(** val shr0 : n -> n -> n **)

let shr0 =
  N.shiftr

(** val wnot : n -> n -> n **)

let wnot wbits x =
  N.coq_lxor x (N.ones wbits)

(** val ch : n -> n -> n -> n -> n **)

let ch wbits x y z0 =
  N.coq_lxor (N.coq_land x y) (N.coq_land (wnot wbits x) z0)

(** val maj : n -> n -> n -> n **)

let maj x y z0 =
  N.coq_lxor (N.coq_land x y) (N.coq_lxor (N.coq_land x z0) (N.coq_land y z0))

(** val bsig0 : n -> n -> n -> n -> n -> n **)

let bsig0 wbits s0a s0b s0c x =
  N.coq_lxor (rotr wbits x s0a)
    (N.coq_lxor (rotr wbits x s0b) (rotr wbits x s0c))

(** val bsig1 : n -> n -> n -> n -> n -> n **)

let bsig1 wbits s1a s1b s1c x =
  N.coq_lxor (rotr wbits x s1a)
    (N.coq_lxor (rotr wbits x s1b) (rotr wbits x s1c))

(** val ssig0 : n -> n -> n -> n -> n -> n **)

let ssig0 wbits g0a g0b g0c x =
  N.coq_lxor (rotr wbits x g0a) (N.coq_lxor (rotr wbits x g0b) (shr0 x g0c))

(** val ssig1 : n -> n -> n -> n -> n -> n **)

let ssig1 wbits g1a g1b g1c x =
  N.coq_lxor (rotr wbits x g1a) (N.coq_lxor (rotr wbits x g1b) (shr0 x g1c))

(** val schedule :
    n -> n -> n -> n -> n -> n -> n -> nat -> n list -> n list **)

let rec schedule wbits g0a g0b g0c g1a g1b g1c n0 w =
  match n0 with
  | O -> w
  | S n' ->
    let wt =
      wadd wbits
        (wadd wbits (ssig1 wbits g1a g1b g1c (nth (S O) w N0))
          (nth (S (S (S (S (S (S O)))))) w N0))
        (wadd wbits
          (ssig0 wbits g0a g0b g0c
            (nth (S (S (S (S (S (S (S (S (S (S (S (S (S (S O)))))))))))))) w
              N0))
          (nth (S (S (S (S (S (S (S (S (S (S (S (S (S (S (S O)))))))))))))))
            w N0))
    in
    schedule wbits g0a g0b g0c g1a g1b g1c n' (wt :: w)

(** val step :
    n -> n -> n -> n -> n -> n -> n -> n list -> (n * n) -> n list **)

let step wbits s0a s0b s0c s1a s1b s1c st kw =
  match st with
  | [] -> st
  | a :: l ->
    (match l with
     | [] -> st
     | b :: l0 ->
       (match l0 with
        | [] -> st
        | c :: l1 ->
          (match l1 with
           | [] -> st
           | d0 :: l2 ->
             (match l2 with
              | [] -> st
              | e :: l3 ->
                (match l3 with
                 | [] -> st
                 | f :: l4 ->
                   (match l4 with
                    | [] -> st
                    | g :: l5 ->
                      (match l5 with
                       | [] -> st
                       | h :: l6 ->
                         (match l6 with
                          | [] ->
                            let t1 =
                              wadd wbits
                                (wadd wbits
                                  (wadd wbits h (bsig1 wbits s1a s1b s1c e))
                                  (wadd wbits (ch wbits e f g) (fst kw)))
                                (snd kw)
                            in
                            let t2 =
                              wadd wbits (bsig0 wbits s0a s0b s0c a)
                                (maj a b c)
                            in
                            (wadd wbits t1 t2) :: (a :: (b :: (c :: (
                            (wadd wbits d0 t1) :: (e :: (f :: (g :: [])))))))
                          | _ :: _ -> st))))))))

(** val compress :
    n -> n -> n -> n -> n -> n -> n -> n -> n -> n -> n -> n -> n -> n list
    -> n list -> n list -> n list **)

let compress wbits s0a s0b s0c s1a s1b s1c g0a g0b g0c g1a g1b g1c k hst blockwords =
  let w =
    rev
      (schedule wbits g0a g0b g0c g1a g1b g1c
        (sub (length k) (S (S (S (S (S (S (S (S (S (S (S (S (S (S (S (S
          O))))))))))))))))) (rev blockwords))
  in
  let st = fold_left (step wbits s0a s0b s0c s1a s1b s1c) (combine k w) hst in
  map (fun p -> wadd wbits (fst p) (snd p)) (combine hst st)

(** val be_word : n list -> n **)

let rec be_word = function
| [] -> N0
| b :: r ->
  N.add
    (N.mul b
      (N.pow (Npos (XO (XO (XO (XO (XO (XO (XO (XO XH)))))))))
        (N.of_nat (length r)))) (be_word r)

(** val be_bytes : nat -> n -> n list **)

let rec be_bytes n0 x =
  match n0 with
  | O -> []
  | S n' ->
    (N.coq_land (N.shiftr x (N.mul (Npos (XO (XO (XO XH)))) (N.of_nat n')))
      (Npos (XI (XI (XI (XI (XI (XI (XI XH))))))))) :: (be_bytes n' x)

(** val words_of : nat -> nat -> n list -> n list **)

let rec words_of wb n0 bs =
  match n0 with
  | O -> []
  | S n' -> (be_word (firstn wb bs)) :: (words_of wb n' (skipn wb bs))

(** val sha_pad : nat -> nat -> n list -> n list **)

let sha_pad block lenbytes msg =
  let l = length msg in
  let r = Nat.modulo (add (add l (S O)) lenbytes) block in
  let z0 = if Nat.eqb r O then O else sub block r in
  app msg
    (app ((Npos (XO (XO (XO (XO (XO (XO (XO XH)))))))) :: [])
      (app (repeat N0 z0)
        (be_bytes lenbytes (N.mul (Npos (XO (XO (XO XH)))) (N.of_nat l)))))

(** val blocks :
    nat -> nat -> nat -> (n list -> n list -> n list) -> n list -> n list ->
    n list **)

let rec blocks block wb nb f h m =
  match nb with
  | O -> h
  | S nb' ->
    blocks block wb nb' f
      (f h
        (words_of wb (S (S (S (S (S (S (S (S (S (S (S (S (S (S (S (S
          O)))))))))))))))) (firstn block m))) (skipn block m)

(** val k256 : n list **)

let k256 =
  (Npos (XO (XO (XO (XI (XI (XO (XO (XI (XI (XI (XI (XI (XO (XI (XO (XO (XO
    (XI (XO (XI (XO (XO (XO (XI (XO (XI (XO (XO (XO (XO
    XH))))))))))))))))))))))))))))))) :: ((Npos (XI (XO (XO (XO (XI (XO (XO
    (XI (XO (XO (XI (XO (XO (XO (XI (XO (XI (XI (XI (XO (XI (XI (XO (XO (XI
    (XO (XO (XO (XI (XI XH))))))))))))))))))))))))))))))) :: ((Npos (XI (XI
    (XI (XI (XO (XO (XI (XI (XI (XI (XO (XI (XI (XI (XI (XI (XO (XO (XO (XO
    (XO (XO (XI (XI (XI (XO (XI (XO (XI (XI (XO
    XH)))))))))))))))))))))))))))))))) :: ((Npos (XI (XO (XI (XO (XO (XI (XO
    (XI (XI (XI (XO (XI (XI (XO (XI (XI (XI (XO (XI (XO (XI (XI (XO (XI (XI
    (XO (XO (XI (XO (XI (XI XH)))))))))))))))))))))))))))))))) :: ((Npos (XI
    (XI (XO (XI (XI (XO (XI (XO (XO (XI (XO (XO (XO (XO (XI (XI (XO (XI (XI
    (XO (XI (XO (XI (XO (XI (XO (XO (XI (XI
    XH)))))))))))))))))))))))))))))) :: ((Npos (XI (XO (XO (XO (XI (XI (XI
    (XI (XI (XO (XO (XO (XI (XO (XO (XO (XI (XO (XO (XO (XI (XI (XI (XI (XI
    (XO (XO (XI (XI (XO XH))))))))))))))))))))))))))))))) :: ((Npos (XO (XO
    (XI (XO (XO (XI (XO (XI (XO (XI (XO (XO (XO (XO (XO (XI (XI (XI (XI (XI
    (XI (XI (XO (XO (XO (XI (XO (XO (XI (XO (XO
    XH)))))))))))))))))))))))))))))))) :: ((Npos (XI (XO (XI (XO (XI (XO (XI
    (XI (XO (XI (XI (XI (XI (XO (XI (XO (XO (XO (XI (XI (XI (XO (XO (XO (XI
    (XI (XO (XI (XO (XI (XO XH)))))))))))))))))))))))))))))))) :: ((Npos (XO
    (XO (XO (XI (XI (XO (XO (XI (XO (XI (XO (XI (XO (XI (XO (XI (XI (XI (XI
    (XO (XO (XO (XO (XO (XO (XO (XO (XI (XI (XO (XI
    XH)))))))))))))))))))))))))))))))) :: ((Npos (XI (XO (XO (XO (XO (XO (XO
    (XO (XI (XI (XO (XI (XI (XO (XI (XO (XI (XI (XO (XO (XO (XO (XO (XI (XO
    (XI (XO (XO XH))))))))))))))))))))))))))))) :: ((Npos (XO (XI (XI (XI (XI
    (XI (XO (XI (XI (XO (XI (XO (XO (XO (XO (XI (XI (XO (XO (XO (XI (XI (XO
    (XO (XO (XO (XI (XO (XO XH)))))))))))))))))))))))))))))) :: ((Npos (XI
    (XI (XO (XO (XO (XO (XI (XI (XI (XO (XI (XI (XI (XI (XI (XO (XO (XO (XI
    (XI (XO (XO (XO (XO (XI (XO (XI (XO (XI (XO
    XH))))))))))))))))))))))))))))))) :: ((Npos (XO (XO (XI (XO (XI (XI (XI
    (XO (XI (XO (XI (XI (XI (XO (XI (XO (XO (XI (XI (XI (XI (XI (XO (XI (XO
    (XI (XO (XO (XI (XI XH))))))))))))))))))))))))))))))) :: ((Npos (XO (XI
    (XI (XI (XI (XI (XI (XI (XI (XO (XO (XO (XI (XI (XO (XI (XO (XI (XI (XI
    (XI (XO (XI (XI (XO (XO (XO (XO (XO (XO (XO
    XH)))))))))))))))))))))))))))))))) :: ((Npos (XI (XI (XI (XO (XO (XI (XO
    (XI (XO (XI (XI (XO (XO (XO (XO (XO (XO (XO (XI (XI (XI (XO (XI (XI (XI
    (XI (XO (XI (XI (XO (XO XH)))))))))))))))))))))))))))))))) :: ((Npos (XO
    (XO (XI (XO (XI (XI (XI (XO (XI (XO (XO (XO (XI (XI (XI (XI (XI (XI (XO
    (XI (XI (XO (XO (XI (XI (XO (XO (XO (XO (XO (XI
    XH)))))))))))))))))))))))))))))))) :: ((Npos (XI (XO (XO (XO (XO (XO (XI
    (XI (XI (XO (XO (XI (XO (XI (XI (XO (XI (XI (XO (XI (XI (XO (XO (XI (XO
    (XO (XI (XO (XO (XI (XI XH)))))))))))))))))))))))))))))))) :: ((Npos (XO
    (XI (XI (XO (XO (XO (XO (XI (XI (XI (XI (XO (XO (XO (XI (XO (XO (XI (XI
    (XI (XI (XI (XO (XI (XI (XI (XI (XI (XO (XI (XI
    XH)))))))))))))))))))))))))))))))) :: ((Npos (XO (XI (XI (XO (XO (XO (XI
    (XI (XI (XO (XI (XI (XI (XO (XO (XI (XI (XO (XO (XO (XO (XO (XI (XI (XI
    (XI (XI XH)))))))))))))))))))))))))))) :: ((Npos (XO (XO (XI (XI (XO (XO
    (XI (XI (XI (XO (XO (XO (XO (XI (XO (XI (XO (XO (XI (XI (XO (XO (XO (XO
    (XO (XO (XI (XO (XO XH)))))))))))))))))))))))))))))) :: ((Npos (XI (XI
    (XI (XI (XO (XI (XI (XO (XO (XO (XI (XI (XO (XI (XO (XO (XI (XO (XO (XI
    (XO (XI (XI (XI (XI (XO (XI (XI (XO
    XH)))))))))))))))))))))))))))))) :: ((Npos (XO (XI (XO (XI (XO (XI (XO
    (XI (XO (XO (XI (XO (XO (XO (XO (XI (XO (XO (XI (XO (XI (XI (XI (XO (XO
    (XI (XO (XI (XO (XO XH))))))))))))))))))))))))))))))) :: ((Npos (XO (XO
    (XI (XI (XI (XO (XI (XI (XI (XO (XO (XI (XO (XI (XO (XI (XO (XO (XO (XO
    (XI (XI (XO (XI (XO (XO (XI (XI (XI (XO
    XH))))))))))))))))))))))))))))))) :: ((Npos (XO (XI (XO (XI (XI (XO (XI
    (XI (XO (XO (XO (XI (XO (XO (XO (XI (XI (XO (XO (XI (XI (XI (XI (XI (XO
    (XI (XI (XO (XI (XI XH))))))))))))))))))))))))))))))) :: ((Npos (XO (XI
    (XO (XO (XI (XO (XI (XO (XI (XO (XO (XO (XI (XO (XI (XO (XO (XI (XI (XI
    (XI (XI (XO (XO (XO (XO (XO (XI (XI (XO (XO
    XH)))))))))))))))))))))))))))))))) :: ((Npos (XI (XO (XI (XI (XO (XI (XI
    (XO (XO (XI (XI (XO (XO (XO (XI (XI (XI (XO (XO (XO (XI (XI (XO (XO (XO
    (XO (XO (XI (XO (XI (XO XH)))))))))))))))))))))))))))))))) :: ((Npos (XO
    (XO (XO (XI (XO (XO (XI (XI (XI (XI (XI (XO (XO (XI (XO (XO (XI (XI (XO
    (XO (XO (XO (XO (XO (XO (XO (XO (XO (XI (XI (XO
    XH)))))))))))))))))))))))))))))))) :: ((Npos (XI (XI (XI (XO (XO (XO (XI
    (XI (XI (XI (XI (XI (XI (XI (XI (XO (XI (XO (XO (XI (XI (XO (XI (XO (XI
    (XI (XI (XI (XI (XI (XO XH)))))))))))))))))))))))))))))))) :: ((Npos (XI
    (XI (XO (XO (XI (XI (XI (XI (XI (XI (XO (XI (XO (XO (XO (XO (XO (XO (XO
    (XO (XO (XI (XI (XI (XO (XI (XI (XO (XO (XO (XI
    XH)))))))))))))))))))))))))))))))) :: ((Npos (XI (XI (XI (XO (XO (XO (XI
    (XO (XI (XO (XO (XO (XI (XO (XO (XI (XI (XI (XI (XO (XO (XI (XO (XI (XI
    (XO (XI (XO (XI (XO (XI XH)))))))))))))))))))))))))))))))) :: ((Npos (XI
    (XO (XO (XO (XI (XO (XI (XO (XI (XI (XO (XO (XO (XI (XI (XO (XO (XI (XO
    (XI (XO (XO (XI (XI (XO (XI XH))))))))))))))))))))))))))) :: ((Npos (XI
    (XI (XI (XO (XO (XI (XI (XO (XI (XO (XO (XI (XO (XI (XO (XO (XI (XO (XO
    (XI (XO (XI (XO (XO (XO (XO (XI (XO
    XH))))))))))))))))))))))))))))) :: ((Npos (XI (XO (XI (XO (XO (XO (XO (XI
    (XO (XI (XO (XI (XO (XO (XO (XO (XI (XI (XI (XO (XI (XI (XO (XI (XI (XI
    (XI (XO (XO XH)))))))))))))))))))))))))))))) :: ((Npos (XO (XO (XO (XI
    (XI (XI (XO (XO (XI (XO (XO (XO (XO (XI (XO (XO (XI (XI (XO (XI (XI (XO
    (XO (XO (XO (XI (XI (XI (XO XH)))))))))))))))))))))))))))))) :: ((Npos
    (XO (XO (XI (XI (XI (XI (XI (XI (XI (XO (XI (XI (XO (XI (XI (XO (XO (XO
    (XI (XI (XO (XI (XO (XO (XI (XO (XI (XI (XO (XO
    XH))))))))))))))))))))))))))))))) :: ((Npos (XI (XI (XO (XO (XI (XO (XO
    (XO (XI (XO (XI (XI (XO (XO (XO (XO (XO (XO (XO (XI (XI (XI (XO (XO (XI
    (XI (XO (XO (XI (XO XH))))))))))))))))))))))))))))))) :: ((Npos (XO (XO
    (XI (XO (XI (XO (XI (XO (XI (XI (XO (XO (XI (XI (XI (XO (XO (XI (XO (XI
    (XO (XO (XO (XO (XI (XO (XI (XO (XO (XI
    XH))))))))))))))))))))))))))))))) :: ((Npos (XI (XI (XO (XI (XI (XI (XO
    (XI (XO (XI (XO (XI (XO (XO (XO (XO (XO (XI (XO (XI (XO (XI (XI (XO (XO
    (XI (XI (XO (XI (XI XH))))))))))))))))))))))))))))))) :: ((Npos (XO (XI
    (XI (XI (XO (XI (XO (XO (XI (XO (XO (XI (XO (XO (XI (XI (XO (XI (XO (XO
    (XO (XO (XI (XI (XI (XO (XO (XO (XO (XO (XO
    XH)))))))))))))))))))))))))))))))) :: ((Npos (XI (XO (XI (XO (XO (XO (XO
    (XI (XO (XO (XI (XI (XO (XI (XO (XO (XO (XI (XO (XO (XI (XI (XI (XO (XO
    (XI (XO (XO (XI (XO (XO XH)))))))))))))))))))))))))))))))) :: ((Npos (XI
    (XO (XO (XO (XO (XI (XO (XI (XO (XO (XO (XI (XO (XI (XI (XI (XI (XI (XI
    (XI (XI (XI (XO (XI (XO (XI (XO (XO (XO (XI (XO
    XH)))))))))))))))))))))))))))))))) :: ((Npos (XI (XI (XO (XI (XO (XO (XI
    (XO (XO (XI (XI (XO (XO (XI (XI (XO (XO (XI (XO (XI (XI (XO (XO (XO (XO
    (XO (XO (XI (XO (XI (XO XH)))))))))))))))))))))))))))))))) :: ((Npos (XO
    (XO (XO (XO (XI (XI (XI (XO (XI (XI (XO (XI (XO (XO (XO (XI (XI (XI (XO
    (XI (XO (XO (XI (XO (XO (XI (XO (XO (XO (XO (XI
    XH)))))))))))))))))))))))))))))))) :: ((Npos (XI (XI (XO (XO (XO (XI (XO
    (XI (XI (XO (XO (XO (XI (XO (XI (XO (XO (XO (XI (XI (XO (XI (XI (XO (XI
    (XI (XI (XO (XO (XO (XI XH)))))))))))))))))))))))))))))))) :: ((Npos (XI
    (XO (XO (XI (XI (XO (XO (XO (XO (XO (XO (XI (XO (XI (XI (XI (XO (XI (XO
    (XO (XI (XO (XO (XI (XI (XO (XO (XO (XI (XO (XI
    XH)))))))))))))))))))))))))))))))) :: ((Npos (XO (XO (XI (XO (XO (XI (XO
    (XO (XO (XI (XI (XO (XO (XO (XO (XO (XI (XO (XO (XI (XI (XO (XO (XI (XO
    (XI (XI (XO (XI (XO (XI XH)))))))))))))))))))))))))))))))) :: ((Npos (XI
    (XO (XI (XO (XO (XO (XO (XI (XI (XO (XI (XO (XI (XI (XO (XO (XO (XI (XI
    (XI (XO (XO (XO (XO (XO (XO (XI (XO (XI (XI (XI
    XH)))))))))))))))))))))))))))))))) :: ((Npos (XO (XO (XO (XO (XI (XI (XI
    (XO (XO (XO (XO (XO (XO (XI (XO (XI (XO (XI (XO (XI (XO (XI (XI (XO (XO
    (XO (XO (XO XH))))))))))))))))))))))))))))) :: ((Npos (XO (XI (XI (XO (XI
    (XO (XO (XO (XI (XO (XO (XO (XO (XO (XI (XI (XO (XO (XI (XO (XO (XI (XO
    (XI (XI (XO (XO (XI XH))))))))))))))))))))))))))))) :: ((Npos (XO (XO (XO
    (XI (XO (XO (XO (XO (XO (XO (XI (XI (XO (XI (XI (XO (XI (XI (XI (XO (XI
    (XI (XO (XO (XO (XI (XI (XI XH))))))))))))))))))))))))))))) :: ((Npos (XO
    (XO (XI (XI (XO (XO (XI (XO (XI (XI (XI (XO (XI (XI (XI (XO (XO (XO (XO
    (XI (XO (XO (XI (XO (XI (XI (XI (XO (XO
    XH)))))))))))))))))))))))))))))) :: ((Npos (XI (XO (XI (XO (XI (XI (XO
    (XI (XO (XO (XI (XI (XI (XI (XO (XI (XO (XO (XO (XO (XI (XI (XO (XI (XO
    (XO (XI (XO (XI XH)))))))))))))))))))))))))))))) :: ((Npos (XI (XI (XO
    (XO (XI (XI (XO (XI (XO (XO (XI (XI (XO (XO (XO (XO (XO (XO (XI (XI (XI
    (XO (XO (XO (XI (XO (XO (XI (XI
    XH)))))))))))))))))))))))))))))) :: ((Npos (XO (XI (XO (XI (XO (XO (XI
    (XO (XO (XI (XO (XI (XO (XI (XO (XI (XO (XO (XO (XI (XI (XO (XI (XI (XO
    (XI (XI (XI (XO (XO XH))))))))))))))))))))))))))))))) :: ((Npos (XI (XI
    (XI (XI (XO (XO (XI (XO (XO (XI (XO (XI (XO (XO (XI (XI (XO (XO (XI (XI
    (XI (XO (XO (XI (XI (XI (XO (XI (XI (XO
    XH))))))))))))))))))))))))))))))) :: ((Npos (XI (XI (XO (XO (XI (XI (XI
    (XI (XI (XI (XI (XI (XO (XI (XI (XO (XO (XI (XI (XI (XO (XI (XO (XO (XO
    (XO (XO (XI (XO (XI XH))))))))))))))))))))))))))))))) :: ((Npos (XO (XI
    (XI (XI (XO (XI (XI (XI (XO (XI (XO (XO (XO (XO (XO (XI (XI (XI (XI (XI
    (XO (XO (XO (XI (XO (XO (XI (XO (XI (XI
    XH))))))))))))))))))))))))))))))) :: ((Npos (XI (XI (XI (XI (XO (XI (XI
    (XO (XI (XI (XO (XO (XO (XI (XI (XO (XI (XO (XI (XO (XO (XI (XO (XI (XO
    (XO (XO (XI (XI (XI XH))))))))))))))))))))))))))))))) :: ((Npos (XO (XO
    (XI (XO (XI (XO (XO (XO (XO (XO (XO (XI (XI (XI (XI (XO (XO (XO (XO (XI
    (XO (XO (XI (XI (XO (XO (XI (XO (XO (XO (XO
    XH)))))))))))))))))))))))))))))))) :: ((Npos (XO (XO (XO (XI (XO (XO (XO
    (XO (XO (XI (XO (XO (XO (XO (XO (XO (XI (XI (XI (XO (XO (XO (XI (XI (XO
    (XO (XI (XI (XO (XO (XO XH)))))))))))))))))))))))))))))))) :: ((Npos (XO
    (XI (XO (XI (XI (XI (XI (XI (XI (XI (XI (XI (XI (XI (XI (XI (XO (XI (XI
    (XI (XI (XI (XO (XI (XO (XO (XO (XO (XI (XO (XO
    XH)))))))))))))))))))))))))))))))) :: ((Npos (XI (XI (XO (XI (XO (XI (XI
    (XI (XO (XO (XI (XI (XO (XI (XI (XO (XO (XO (XO (XO (XI (XO (XI (XO (XO
    (XO (XI (XO (XO (XI (XO XH)))))))))))))))))))))))))))))))) :: ((Npos (XI
    (XI (XI (XO (XI (XI (XI (XI (XI (XI (XO (XO (XO (XI (XO (XI (XI (XO (XO
    (XI (XI (XI (XI (XI (XO (XI (XI (XI (XI (XI (XO
    XH)))))))))))))))))))))))))))))))) :: ((Npos (XO (XI (XO (XO (XI (XI (XI
    (XI (XO (XO (XO (XI (XI (XI (XI (XO (XI (XO (XO (XO (XI (XI (XI (XO (XO
    (XI (XI (XO (XO (XO (XI
    XH)))))))))))))))))))))))))))))))) :: [])))))))))))))))))))))))))))))))))))))))))))))))))))))))))))))))

(** val h256 : n list **)

let h256 =
  (Npos (XI (XI (XI (XO (XO (XI (XI (XO (XO (XI (XI (XO (XO (XI (XI (XI (XI
    (XO (XO (XI (XO (XO (XO (XO (XO (XI (XO (XI (XO (XI
    XH))))))))))))))))))))))))))))))) :: ((Npos (XI (XO (XI (XO (XO (XO (XO
    (XI (XO (XI (XI (XI (XO (XI (XO (XI (XI (XI (XI (XO (XO (XI (XI (XO (XI
    (XI (XO (XI (XI (XI (XO XH)))))))))))))))))))))))))))))))) :: ((Npos (XO
    (XI (XO (XO (XI (XI (XI (XO (XI (XI (XO (XO (XI (XI (XI (XI (XO (XI (XI
    (XI (XO (XI (XI (XO (XO (XO (XI (XI (XI
    XH)))))))))))))))))))))))))))))) :: ((Npos (XO (XI (XO (XI (XI (XI (XO
    (XO (XI (XO (XI (XO (XI (XI (XI (XI (XI (XI (XI (XI (XO (XO (XI (XO (XI
    (XO (XI (XO (XO (XI (XO XH)))))))))))))))))))))))))))))))) :: ((Npos (XI
    (XI (XI (XI (XI (XI (XI (XO (XO (XI (XO (XO (XI (XO (XI (XO (XO (XI (XI
    (XI (XO (XO (XO (XO (XI (XO (XO (XO (XI (XO
    XH))))))))))))))))))))))))))))))) :: ((Npos (XO (XO (XI (XI (XO (XO (XO
    (XI (XO (XO (XO (XI (XO (XI (XI (XO (XI (XO (XI (XO (XO (XO (XO (XO (XI
    (XI (XO (XI (XI (XO (XO XH)))))))))))))))))))))))))))))))) :: ((Npos (XI
    (XI (XO (XI (XO (XI (XO (XI (XI (XO (XO (XI (XI (XO (XI (XI (XI (XI (XO
    (XO (XO (XO (XO (XI (XI (XI (XI (XI
    XH))))))))))))))))))))))))))))) :: ((Npos (XI (XO (XO (XI (XI (XO (XO (XO
    (XI (XO (XI (XI (XO (XO (XI (XI (XO (XO (XO (XO (XO (XI (XI (XI (XI (XI
    (XO (XI (XI (XO XH))))))))))))))))))))))))))))))) :: [])))))))

(** val k512 : n list **)

let k512 =
  (Npos (XO (XI (XO (XO (XO (XI (XO (XO (XO (XI (XI (XI (XO (XI (XO (XI (XO
    (XO (XO (XI (XO (XI (XO (XO (XI (XI (XI (XO (XI (XO (XI (XI (XO (XO (XO
    (XI (XI (XO (XO (XI (XI (XI (XI (XI (XO (XI (XO (XO (XO (XI (XO (XI (XO
    (XO (XO (XI (XO (XI (XO (XO (XO (XO
    XH))))))))))))))))))))))))))))))))))))))))))))))))))))))))))))))) :: ((Npos
    (XI (XO (XI (XI (XO (XO (XI (XI (XI (XO (XI (XO (XO (XI (XI (XO (XI (XI
    (XI (XI (XO (XI (XI (XI (XI (XI (XO (XO (XO (XI (XO (XO (XI (XO (XO (XO
    (XI (XO (XO (XI (XO (XO (XI (XO (XO (XO (XI (XO (XI (XI (XI (XO (XI (XI
    (XO (XO (XI (XO (XO (XO (XI (XI
    XH))))))))))))))))))))))))))))))))))))))))))))))))))))))))))))))) :: ((Npos
    (XI (XI (XI (XI (XO (XI (XO (XO (XI (XI (XO (XI (XI (XI (XO (XO (XI (XO
    (XI (XI (XO (XO (XI (XO (XO (XO (XI (XI (XO (XI (XI (XI (XI (XI (XI (XI
    (XO (XO (XI (XI (XI (XI (XO (XI (XI (XI (XI (XI (XO (XO (XO (XO (XO (XO
    (XI (XI (XI (XO (XI (XO (XI (XI (XO
    XH)))))))))))))))))))))))))))))))))))))))))))))))))))))))))))))))) :: ((Npos
    (XO (XO (XI (XI (XI (XI (XO (XI (XI (XI (XO (XI (XI (XO (XI (XI (XI (XO
    (XO (XI (XO (XO (XO (XI (XI (XO (XO (XO (XO (XO (XO (XI (XI (XO (XI (XO
    (XO (XI (XO (XI (XI (XI (XO (XI (XI (XO (XI (XI (XI (XO (XI (XO (XI (XI
    (XO (XI (XI (XO (XO (XI (XO (XI (XI
    XH)))))))))))))))))))))))))))))))))))))))))))))))))))))))))))))))) :: ((Npos
    (XO (XO (XO (XI (XI (XI (XO (XO (XI (XO (XI (XO (XI (XI (XO (XI (XO (XO
    (XO (XI (XO (XO (XI (XO (XI (XI (XO (XO (XI (XI (XI (XI (XI (XI (XO (XI
    (XI (XO (XI (XO (XO (XI (XO (XO (XO (XO (XI (XI (XO (XI (XI (XO (XI (XO
    (XI (XO (XI (XO (XO (XI (XI
    XH)))))))))))))))))))))))))))))))))))))))))))))))))))))))))))))) :: ((Npos
    (XI (XO (XO (XI (XI (XO (XO (XO (XO (XO (XO (XO (XI (XO (XI (XI (XI (XO
    (XI (XO (XO (XO (XO (XO (XO (XI (XI (XO (XI (XI (XO (XI (XI (XO (XO (XO
    (XI (XI (XI (XI (XI (XO (XO (XO (XI (XO (XO (XO (XI (XO (XO (XO (XI (XI
    (XI (XI (XI (XO (XO (XI (XI (XO
    XH))))))))))))))))))))))))))))))))))))))))))))))))))))))))))))))) :: ((Npos
    (XI (XI (XO (XI (XI (XO (XO (XI (XI (XI (XI (XI (XO (XO (XI (XO (XI (XO
    (XO (XI (XI (XO (XO (XO (XI (XI (XI (XI (XO (XI (XO (XI (XO (XO (XI (XO
    (XO (XI (XO (XI (XO (XI (XO (XO (XO (XO (XO (XI (XI (XI (XI (XI (XI (XI
    (XO (XO (XO (XI (XO (XO (XI (XO (XO
    XH)))))))))))))))))))))))))))))))))))))))))))))))))))))))))))))))) :: ((Npos
    (XO (XO (XO (XI (XI (XO (XO (XO (XI (XO (XO (XO (XO (XO (XO (XI (XI (XO
    (XI (XI (XO (XI (XI (XO (XO (XI (XO (XI (XI (XO (XI (XI (XI (XO (XI (XO
    (XI (XO (XI (XI (XO (XI (XI (XI (XI (XO (XI (XO (XO (XO (XI (XI (XI (XO
    (XO (XO (XI (XI (XO (XI (XO (XI (XO
    XH)))))))))))))))))))))))))))))))))))))))))))))))))))))))))))))))) :: ((Npos
    (XO (XI (XO (XO (XO (XO (XI (XO (XO (XI (XO (XO (XO (XO (XO (XO (XI (XI
    (XO (XO (XO (XO (XO (XO (XI (XI (XO (XO (XO (XI (XO (XI (XO (XO (XO (XI
    (XI (XO (XO (XI (XO (XI (XO (XI (XO (XI (XO (XI (XI (XI (XI (XO (XO (XO
    (XO (XO (XO (XO (XO (XI (XI (XO (XI
    XH)))))))))))))))))))))))))))))))))))))))))))))))))))))))))))))))) :: ((Npos
    (XO (XI (XI (XI (XI (XI (XO (XI (XI (XI (XI (XI (XO (XI (XI (XO (XO (XO
    (XO (XO (XI (XI (XI (XO (XI (XO (XI (XO (XO (XO (XI (XO (XI (XO (XO (XO
    (XO (XO (XO (XO (XI (XI (XO (XI (XI (XO (XI (XO (XI (XI (XO (XO (XO (XO
    (XO (XI (XO (XI (XO (XO
    XH))))))))))))))))))))))))))))))))))))))))))))))))))))))))))))) :: ((Npos
    (XO (XO (XI (XI (XO (XO (XO (XI (XO (XI (XO (XO (XI (XI (XO (XI (XO (XO
    (XI (XO (XO (XI (XI (XI (XO (XI (XI (XI (XO (XO (XI (XO (XO (XI (XI (XI
    (XI (XI (XO (XI (XI (XO (XI (XO (XO (XO (XO (XI (XI (XO (XO (XO (XI (XI
    (XO (XO (XO (XO (XI (XO (XO
    XH)))))))))))))))))))))))))))))))))))))))))))))))))))))))))))))) :: ((Npos
    (XO (XI (XO (XO (XO (XI (XI (XI (XO (XO (XI (XO (XI (XI (XO (XI (XI (XI
    (XI (XI (XI (XI (XI (XI (XI (XO (XI (XO (XI (XO (XI (XI (XI (XI (XO (XO
    (XO (XO (XI (XI (XI (XO (XI (XI (XI (XI (XI (XO (XO (XO (XI (XI (XO (XO
    (XO (XO (XI (XO (XI (XO (XI (XO
    XH))))))))))))))))))))))))))))))))))))))))))))))))))))))))))))))) :: ((Npos
    (XI (XI (XI (XI (XO (XI (XI (XO (XI (XO (XO (XI (XO (XO (XO (XI (XI (XI
    (XO (XI (XI (XI (XI (XO (XO (XI (XO (XO (XI (XI (XI (XI (XO (XO (XI (XO
    (XI (XI (XI (XO (XI (XO (XI (XI (XI (XO (XI (XO (XO (XI (XI (XI (XI (XI
    (XO (XI (XO (XI (XO (XO (XI (XI
    XH))))))))))))))))))))))))))))))))))))))))))))))))))))))))))))))) :: ((Npos
    (XI (XO (XO (XO (XI (XI (XO (XI (XO (XI (XI (XO (XI (XO (XO (XI (XO (XI
    (XI (XO (XI (XO (XO (XO (XI (XI (XO (XI (XI (XI (XO (XO (XO (XI (XI (XI
    (XI (XI (XI (XI (XI (XO (XO (XO (XI (XI (XO (XI (XO (XI (XI (XI (XI (XO
    (XI (XI (XO (XO (XO (XO (XO (XO (XO
    XH)))))))))))))))))))))))))))))))))))))))))))))))))))))))))))))))) :: ((Npos
    (XI (XO (XI (XO (XI (XI (XO (XO (XO (XI (XO (XO (XI (XO (XO (XO (XI (XI
    (XI (XO (XO (XO (XI (XI (XI (XO (XI (XO (XO (XI (XO (XO (XI (XI (XI (XO
    (XO (XI (XO (XI (XO (XI (XI (XO (XO (XO (XO (XO (XO (XO (XI (XI (XI (XO
    (XI (XI (XI (XI (XO (XI (XI (XO (XO
    XH)))))))))))))))))))))))))))))))))))))))))))))))))))))))))))))))) :: ((Npos
    (XO (XO (XI (XO (XI (XO (XO (XI (XO (XI (XI (XO (XO (XI (XO (XO (XI (XO
    (XO (XI (XO (XI (XI (XO (XI (XI (XI (XI (XO (XO (XI (XI (XO (XO (XI (XO
    (XI (XI (XI (XO (XI (XO (XO (XO (XI (XI (XI (XI (XI (XI (XO (XI (XI (XO
    (XO (XI (XI (XO (XO (XO (XO (XO (XI
    XH)))))))))))))))))))))))))))))))))))))))))))))))))))))))))))))))) :: ((Npos
    (XO (XI (XO (XO (XI (XO (XI (XI (XO (XI (XO (XI (XO (XO (XI (XO (XI (XO
    (XO (XO (XI (XI (XI (XI (XO (XI (XI (XI (XI (XO (XO (XI (XI (XO (XO (XO
    (XO (XO (XI (XI (XI (XO (XO (XI (XO (XI (XI (XO (XI (XI (XO (XI (XI (XO
    (XO (XI (XO (XO (XI (XO (XO (XI (XI
    XH)))))))))))))))))))))))))))))))))))))))))))))))))))))))))))))))) :: ((Npos
    (XI (XI (XO (XO (XO (XI (XI (XI (XI (XO (XI (XO (XO (XI (XO (XO (XI (XI
    (XI (XI (XO (XO (XI (XO (XO (XO (XO (XI (XI (XI (XO (XO (XO (XI (XI (XO
    (XO (XO (XO (XI (XI (XI (XI (XO (XO (XO (XI (XO (XO (XI (XI (XI (XI (XI
    (XO (XI (XI (XI (XI (XI (XO (XI (XI
    XH)))))))))))))))))))))))))))))))))))))))))))))))))))))))))))))))) :: ((Npos
    (XI (XO (XI (XO (XI (XI (XO (XI (XI (XO (XI (XO (XI (XO (XI (XI (XO (XO
    (XI (XI (XO (XO (XO (XI (XI (XI (XO (XI (XO (XO (XO (XI (XO (XI (XI (XO
    (XO (XO (XI (XI (XI (XO (XI (XI (XI (XO (XO (XI (XI (XO (XO (XO (XO (XO
    (XI (XI (XI (XI (XI
    XH)))))))))))))))))))))))))))))))))))))))))))))))))))))))))))) :: ((Npos
    (XI (XO (XI (XO (XO (XI (XI (XO (XO (XO (XI (XI (XI (XO (XO (XI (XO (XO
    (XI (XI (XO (XI (XO (XI (XI (XI (XI (XO (XI (XI (XI (XO (XO (XO (XI (XI
    (XO (XO (XI (XI (XI (XO (XO (XO (XO (XI (XO (XI (XO (XO (XI (XI (XO (XO
    (XO (XO (XO (XO (XI (XO (XO
    XH)))))))))))))))))))))))))))))))))))))))))))))))))))))))))))))) :: ((Npos
    (XI (XO (XI (XO (XI (XI (XI (XO (XO (XI (XO (XO (XO (XO (XO (XO (XI (XI
    (XO (XI (XO (XI (XO (XO (XI (XO (XO (XI (XI (XO (XI (XO (XI (XI (XI (XI
    (XO (XI (XI (XO (XO (XO (XI (XI (XO (XI (XO (XO (XI (XO (XO (XI (XO (XI
    (XI (XI (XI (XO (XI (XI (XO
    XH)))))))))))))))))))))))))))))))))))))))))))))))))))))))))))))) :: ((Npos
    (XI (XI (XO (XO (XO (XO (XO (XI (XO (XO (XI (XO (XO (XI (XI (XI (XO (XI
    (XI (XO (XO (XI (XO (XI (XO (XI (XI (XI (XO (XI (XI (XO (XO (XI (XO (XI
    (XO (XI (XO (XI (XO (XO (XI (XO (XO (XO (XO (XI (XO (XO (XI (XO (XI (XI
    (XI (XO (XO (XI (XO (XI (XO (XO
    XH))))))))))))))))))))))))))))))))))))))))))))))))))))))))))))))) :: ((Npos
    (XO (XO (XI (XO (XI (XO (XI (XI (XI (XI (XO (XI (XI (XI (XI (XI (XI (XO
    (XO (XO (XO (XO (XI (XO (XI (XO (XI (XI (XI (XI (XO (XI (XO (XO (XI (XI
    (XI (XO (XI (XI (XI (XO (XO (XI (XO (XI (XO (XI (XO (XO (XO (XO (XI (XI
    (XO (XI (XO (XO (XI (XI (XI (XO
    XH))))))))))))))))))))))))))))))))))))))))))))))))))))))))))))))) :: ((Npos
    (XI (XO (XI (XO (XI (XI (XO (XI (XI (XI (XO (XO (XI (XO (XI (XO (XI (XO
    (XO (XO (XI (XO (XO (XO (XI (XI (XO (XO (XO (XO (XO (XI (XO (XI (XO (XI
    (XI (XO (XI (XI (XO (XO (XO (XI (XO (XO (XO (XI (XI (XO (XO (XI (XI (XI
    (XI (XI (XO (XI (XI (XO (XI (XI
    XH))))))))))))))))))))))))))))))))))))))))))))))))))))))))))))))) :: ((Npos
    (XI (XI (XO (XI (XO (XI (XO (XI (XI (XI (XI (XI (XI (XO (XI (XI (XO (XI
    (XI (XO (XO (XI (XI (XO (XO (XI (XI (XI (XO (XI (XI (XI (XO (XI (XO (XO
    (XI (XO (XI (XO (XI (XO (XO (XO (XI (XO (XI (XO (XO (XI (XI (XI (XI (XI
    (XO (XO (XO (XO (XO (XI (XI (XO (XO
    XH)))))))))))))))))))))))))))))))))))))))))))))))))))))))))))))))) :: ((Npos
    (XO (XO (XO (XO (XI (XO (XO (XO (XO (XI (XO (XO (XI (XI (XO (XO (XO (XO
    (XI (XO (XI (XI (XO (XI (XI (XO (XI (XI (XO (XI (XO (XO (XI (XO (XI (XI
    (XO (XI (XI (XO (XO (XI (XI (XO (XO (XO (XI (XI (XI (XO (XO (XO (XI (XI
    (XO (XO (XO (XO (XO (XI (XO (XI (XO
    XH)))))))))))))))))))))))))))))))))))))))))))))))))))))))))))))))) :: ((Npos
    (XI (XI (XI (XI (XI (XI (XO (XO (XI (XO (XO (XO (XO (XI (XO (XO (XI (XI
    (XO (XI (XI (XI (XI (XI (XO (XO (XO (XI (XI (XO (XO (XI (XO (XO (XO (XI
    (XO (XO (XI (XI (XI (XI (XI (XO (XO (XI (XO (XO (XI (XI (XO (XO (XO (XO
    (XO (XO (XO (XO (XO (XO (XI (XI (XO
    XH)))))))))))))))))))))))))))))))))))))))))))))))))))))))))))))))) :: ((Npos
    (XO (XO (XI (XO (XO (XI (XI (XI (XO (XI (XI (XI (XO (XO (XO (XO (XI (XI
    (XI (XI (XO (XI (XI (XI (XO (XI (XI (XI (XI (XI (XO (XI (XI (XI (XI (XO
    (XO (XO (XI (XI (XI (XI (XI (XI (XI (XI (XI (XO (XI (XO (XO (XI (XI (XO
    (XI (XO (XI (XI (XI (XI (XI (XI (XO
    XH)))))))))))))))))))))))))))))))))))))))))))))))))))))))))))))))) :: ((Npos
    (XO (XI (XO (XO (XO (XO (XI (XI (XI (XI (XI (XI (XO (XO (XO (XI (XO (XO
    (XO (XI (XO (XI (XO (XI (XI (XO (XI (XI (XI (XI (XO (XO (XI (XI (XO (XO
    (XI (XI (XI (XI (XI (XI (XO (XI (XO (XO (XO (XO (XO (XO (XO (XO (XO (XI
    (XI (XI (XO (XI (XI (XO (XO (XO (XI
    XH)))))))))))))))))))))))))))))))))))))))))))))))))))))))))))))))) :: ((Npos
    (XI (XO (XI (XO (XO (XI (XO (XO (XI (XI (XI (XO (XO (XI (XO (XI (XO (XI
    (XO (XI (XO (XO (XO (XO (XI (XI (XO (XO (XI (XO (XO (XI (XI (XI (XI (XO
    (XO (XO (XI (XO (XI (XO (XO (XO (XI (XO (XO (XI (XI (XI (XI (XO (XO (XI
    (XO (XI (XI (XO (XI (XO (XI (XO (XI
    XH)))))))))))))))))))))))))))))))))))))))))))))))))))))))))))))))) :: ((Npos
    (XI (XI (XI (XI (XO (XI (XI (XO (XO (XI (XO (XO (XO (XO (XO (XI (XI (XI
    (XO (XO (XO (XO (XO (XO (XO (XO (XO (XO (XO (XI (XI (XI (XI (XO (XO (XO
    (XI (XO (XI (XO (XI (XI (XO (XO (XO (XI (XI (XO (XO (XI (XO (XI (XO (XO
    (XI (XI (XO (XI
    XH))))))))))))))))))))))))))))))))))))))))))))))))))))))))))) :: ((Npos
    (XO (XO (XO (XO (XI (XI (XI (XO (XO (XI (XI (XI (XO (XI (XI (XO (XO (XI
    (XI (XI (XO (XO (XO (XO (XO (XI (XO (XI (XO (XO (XO (XO (XI (XI (XI (XO
    (XO (XI (XI (XO (XI (XO (XO (XI (XO (XI (XO (XO (XI (XO (XO (XI (XO (XI
    (XO (XO (XO (XO (XI (XO
    XH))))))))))))))))))))))))))))))))))))))))))))))))))))))))))))) :: ((Npos
    (XO (XO (XI (XI (XI (XI (XI (XI (XI (XI (XI (XI (XO (XI (XO (XO (XO (XI
    (XO (XO (XI (XO (XI (XI (XO (XI (XI (XO (XO (XO (XI (XO (XI (XO (XI (XO
    (XO (XO (XO (XI (XO (XI (XO (XI (XO (XO (XO (XO (XI (XI (XI (XO (XI (XI
    (XO (XI (XI (XI (XI (XO (XO
    XH)))))))))))))))))))))))))))))))))))))))))))))))))))))))))))))) :: ((Npos
    (XO (XI (XI (XO (XO (XI (XO (XO (XI (XO (XO (XI (XO (XO (XI (XI (XO (XI
    (XI (XO (XO (XI (XO (XO (XO (XO (XI (XI (XI (XO (XI (XO (XO (XO (XO (XI
    (XI (XI (XO (XO (XI (XO (XO (XO (XO (XI (XO (XO (XI (XI (XO (XI (XI (XO
    (XO (XO (XO (XI (XI (XI (XO
    XH)))))))))))))))))))))))))))))))))))))))))))))))))))))))))))))) :: ((Npos
    (XI (XO (XI (XI (XO (XI (XI (XI (XO (XI (XO (XI (XO (XI (XO (XO (XO (XO
    (XI (XO (XO (XO (XI (XI (XO (XI (XO (XI (XI (XO (XI (XO (XO (XO (XI (XI
    (XI (XI (XI (XI (XI (XO (XI (XI (XO (XI (XI (XO (XO (XO (XI (XI (XO (XI
    (XO (XO (XI (XO (XI (XI (XO (XO
    XH))))))))))))))))))))))))))))))))))))))))))))))))))))))))))))))) :: ((Npos
    (XI (XI (XI (XI (XI (XO (XI (XI (XI (XI (XO (XO (XI (XI (XO (XI (XI (XO
    (XI (XO (XI (XO (XO (XI (XI (XO (XI (XI (XI (XO (XO (XI (XI (XI (XO (XO
    (XI (XO (XO (XO (XI (XO (XI (XI (XO (XO (XO (XO (XO (XO (XO (XI (XI (XI
    (XO (XO (XI (XI (XO (XO (XI (XO
    XH))))))))))))))))))))))))))))))))))))))))))))))))))))))))))))))) :: ((Npos
    (XO (XI (XI (XI (XI (XO (XI (XI (XI (XI (XO (XO (XO (XI (XI (XO (XI (XI
    (XI (XI (XO (XI (XO (XI (XI (XI (XO (XI (XO (XO (XO (XI (XO (XO (XI (XO
    (XI (XO (XI (XO (XI (XI (XO (XO (XI (XI (XI (XO (XO (XI (XO (XI (XO (XO
    (XO (XO (XI (XO (XI (XO (XO (XI
    XH))))))))))))))))))))))))))))))))))))))))))))))))))))))))))))))) :: ((Npos
    (XO (XO (XO (XI (XO (XI (XO (XI (XO (XI (XO (XO (XI (XI (XO (XI (XI (XI
    (XI (XO (XI (XI (XI (XO (XO (XO (XI (XI (XI (XI (XO (XO (XI (XI (XO (XI
    (XI (XI (XO (XI (XO (XI (XO (XI (XO (XO (XO (XO (XO (XI (XO (XI (XO (XI
    (XI (XO (XO (XI (XI (XO (XI (XI
    XH))))))))))))))))))))))))))))))))))))))))))))))))))))))))))))))) :: ((Npos
    (XO (XI (XI (XO (XO (XI (XI (XI (XO (XI (XI (XI (XO (XI (XO (XI (XI (XO
    (XI (XI (XO (XI (XI (XI (XI (XI (XI (XO (XO (XO (XI (XO (XO (XI (XI (XI
    (XO (XI (XO (XO (XI (XO (XO (XI (XO (XO (XI (XI (XO (XI (XO (XO (XO (XO
    (XI (XI (XI (XO (XO (XO (XO (XO (XO
    XH)))))))))))))))))))))))))))))))))))))))))))))))))))))))))))))))) :: ((Npos
    (XI (XI (XO (XI (XI (XI (XO (XO (XI (XO (XI (XO (XI (XI (XO (XO (XO (XI
    (XO (XO (XO (XO (XO (XI (XO (XO (XI (XO (XI (XO (XO (XO (XI (XO (XI (XO
    (XO (XO (XO (XI (XO (XO (XI (XI (XO (XI (XO (XO (XO (XI (XO (XO (XI (XI
    (XI (XO (XO (XI (XO (XO (XI (XO (XO
    XH)))))))))))))))))))))))))))))))))))))))))))))))))))))))))))))))) :: ((Npos
    (XO (XO (XI (XO (XO (XI (XI (XO (XI (XI (XO (XO (XO (XO (XO (XO (XI (XO
    (XO (XO (XI (XI (XI (XI (XO (XO (XI (XI (XO (XO (XI (XO (XI (XO (XO (XO
    (XO (XI (XO (XI (XO (XO (XO (XI (XO (XI (XI (XI (XI (XI (XI (XI (XI (XI
    (XO (XI (XO (XI (XO (XO (XO (XI (XO
    XH)))))))))))))))))))))))))))))))))))))))))))))))))))))))))))))))) :: ((Npos
    (XI (XO (XO (XO (XO (XO (XO (XO (XO (XO (XO (XO (XI (XI (XO (XO (XO (XI
    (XO (XO (XO (XO (XI (XO (XO (XO (XI (XI (XI (XI (XO (XI (XI (XI (XO (XI
    (XO (XO (XI (XO (XO (XI (XI (XO (XO (XI (XI (XO (XO (XI (XO (XI (XI (XO
    (XO (XO (XO (XO (XO (XI (XO (XI (XO
    XH)))))))))))))))))))))))))))))))))))))))))))))))))))))))))))))))) :: ((Npos
    (XI (XO (XO (XO (XI (XO (XO (XI (XI (XI (XI (XO (XI (XO (XO (XI (XO (XO
    (XO (XI (XI (XI (XI (XI (XO (XO (XO (XO (XI (XO (XI (XI (XO (XO (XO (XO
    (XI (XI (XI (XO (XI (XI (XO (XI (XO (XO (XO (XI (XI (XI (XO (XI (XO (XO
    (XI (XO (XO (XI (XO (XO (XO (XO (XI
    XH)))))))))))))))))))))))))))))))))))))))))))))))))))))))))))))))) :: ((Npos
    (XO (XO (XO (XO (XI (XI (XO (XO (XO (XI (XI (XI (XI (XI (XO (XI (XO (XO
    (XI (XO (XI (XO (XI (XO (XO (XI (XI (XO (XO (XO (XO (XO (XI (XI (XO (XO
    (XO (XI (XO (XI (XI (XO (XO (XO (XI (XO (XI (XO (XO (XO (XI (XI (XO (XI
    (XI (XO (XI (XI (XI (XO (XO (XO (XI
    XH)))))))))))))))))))))))))))))))))))))))))))))))))))))))))))))))) :: ((Npos
    (XO (XO (XO (XI (XI (XO (XO (XO (XO (XI (XO (XO (XI (XO (XI (XO (XI (XI
    (XI (XI (XO (XI (XI (XI (XO (XI (XI (XO (XI (XO (XI (XI (XI (XO (XO (XI
    (XI (XO (XO (XO (XO (XO (XO (XI (XO (XI (XI (XI (XO (XI (XO (XO (XI (XO
    (XO (XI (XI (XO (XO (XO (XI (XO (XI
    XH)))))))))))))))))))))))))))))))))))))))))))))))))))))))))))))))) :: ((Npos
    (XO (XO (XO (XO (XI (XO (XO (XO (XI (XO (XO (XI (XO (XI (XO (XI (XI (XO
    (XI (XO (XO (XI (XI (XO (XI (XO (XI (XO (XI (XO (XI (XO (XO (XO (XI (XO
    (XO (XI (XO (XO (XO (XI (XI (XO (XO (XO (XO (XO (XI (XO (XO (XI (XI (XO
    (XO (XI (XO (XI (XI (XO (XI (XO (XI
    XH)))))))))))))))))))))))))))))))))))))))))))))))))))))))))))))))) :: ((Npos
    (XO (XI (XO (XI (XO (XI (XO (XO (XO (XO (XO (XO (XO (XI (XO (XO (XI (XO
    (XO (XO (XI (XI (XI (XO (XI (XI (XI (XO (XI (XO (XI (XO (XI (XO (XI (XO
    (XO (XO (XO (XI (XI (XO (XI (XO (XI (XI (XO (XO (XO (XI (XI (XI (XO (XO
    (XO (XO (XO (XO (XI (XO (XI (XI (XI
    XH)))))))))))))))))))))))))))))))))))))))))))))))))))))))))))))))) :: ((Npos
    (XO (XO (XO (XI (XI (XI (XO (XI (XI (XO (XO (XO (XI (XO (XI (XI (XI (XI
    (XO (XI (XI (XI (XO (XI (XO (XI (XO (XO (XI (XI (XO (XO (XO (XO (XO (XO
    (XI (XI (XI (XO (XO (XO (XO (XO (XO (XI (XO (XI (XO (XI (XO (XI (XO (XI
    (XI (XO (XO (XO (XO (XO
    XH))))))))))))))))))))))))))))))))))))))))))))))))))))))))))))) :: ((Npos
    (XO (XO (XO (XI (XO (XO (XI (XI (XO (XO (XO (XO (XI (XO (XI (XI (XO (XI
    (XO (XO (XI (XO (XI (XI (XO (XO (XO (XI (XI (XI (XO (XI (XO (XI (XI (XO
    (XI (XO (XO (XO (XI (XO (XO (XO (XO (XO (XI (XI (XO (XO (XI (XO (XO (XI
    (XO (XI (XI (XO (XO (XI
    XH))))))))))))))))))))))))))))))))))))))))))))))))))))))))))))) :: ((Npos
    (XI (XI (XO (XO (XI (XO (XI (XO (XI (XI (XO (XI (XO (XI (XO (XI (XI (XO
    (XO (XO (XO (XO (XI (XO (XI (XO (XO (XO (XI (XO (XI (XO (XO (XO (XO (XI
    (XO (XO (XO (XO (XO (XO (XI (XI (XO (XI (XI (XO (XI (XI (XI (XO (XI (XI
    (XO (XO (XO (XI (XI (XI
    XH))))))))))))))))))))))))))))))))))))))))))))))))))))))))))))) :: ((Npos
    (XI (XO (XO (XI (XI (XO (XO (XI (XI (XI (XO (XI (XO (XI (XI (XI (XO (XI
    (XI (XI (XO (XO (XO (XI (XI (XI (XI (XI (XI (XO (XI (XI (XO (XO (XI (XI
    (XO (XO (XI (XO (XI (XI (XI (XO (XI (XI (XI (XO (XO (XO (XO (XI (XO (XO
    (XI (XO (XI (XI (XI (XO (XO
    XH)))))))))))))))))))))))))))))))))))))))))))))))))))))))))))))) :: ((Npos
    (XO (XO (XO (XI (XO (XI (XO (XI (XO (XO (XO (XI (XO (XO (XI (XO (XI (XI
    (XO (XI (XI (XO (XO (XI (XI (XO (XO (XO (XO (XI (XI (XI (XI (XO (XI (XO
    (XI (XI (XO (XI (XO (XO (XI (XI (XI (XI (XO (XI (XO (XO (XO (XO (XI (XI
    (XO (XI (XO (XO (XI (XO (XI
    XH)))))))))))))))))))))))))))))))))))))))))))))))))))))))))))))) :: ((Npos
    (XI (XI (XO (XO (XO (XI (XI (XO (XO (XI (XO (XI (XI (XO (XI (XO (XI (XO
    (XO (XI (XO (XO (XI (XI (XI (XO (XI (XO (XO (XO (XI (XI (XI (XI (XO (XO
    (XI (XI (XO (XI (XO (XO (XI (XI (XO (XO (XO (XO (XO (XO (XI (XI (XI (XO
    (XO (XO (XI (XO (XO (XI (XI
    XH)))))))))))))))))))))))))))))))))))))))))))))))))))))))))))))) :: ((Npos
    (XI (XI (XO (XI (XO (XO (XI (XI (XO (XI (XO (XI (XO (XO (XO (XI (XI (XO
    (XO (XO (XO (XO (XI (XO (XI (XI (XO (XO (XO (XI (XI (XI (XO (XI (XO (XI
    (XO (XO (XI (XO (XO (XI (XO (XI (XO (XI (XO (XI (XO (XO (XO (XI (XI (XO
    (XI (XI (XO (XI (XI (XI (XO (XO
    XH))))))))))))))))))))))))))))))))))))))))))))))))))))))))))))))) :: ((Npos
    (XI (XI (XO (XO (XI (XI (XI (XO (XI (XI (XO (XO (XO (XI (XI (XI (XI (XI
    (XO (XO (XO (XI (XI (XO (XI (XI (XI (XO (XI (XI (XI (XO (XI (XI (XI (XI
    (XO (XO (XI (XO (XO (XI (XO (XI (XO (XO (XI (XI (XO (XO (XI (XI (XI (XO
    (XO (XI (XI (XI (XO (XI (XI (XO
    XH))))))))))))))))))))))))))))))))))))))))))))))))))))))))))))))) :: ((Npos
    (XI (XI (XO (XO (XO (XI (XO (XI (XO (XO (XO (XI (XI (XI (XO (XI (XO (XI
    (XO (XO (XI (XI (XO (XI (XO (XI (XI (XO (XI (XO (XI (XI (XI (XI (XO (XO
    (XI (XI (XI (XI (XI (XI (XI (XI (XO (XI (XI (XO (XO (XI (XI (XI (XO (XI
    (XO (XO (XO (XO (XO (XI (XO (XI
    XH))))))))))))))))))))))))))))))))))))))))))))))))))))))))))))))) :: ((Npos
    (XO (XO (XI (XI (XI (XI (XI (XI (XO (XI (XO (XO (XI (XI (XO (XI (XI (XI
    (XI (XI (XO (XI (XI (XI (XI (XO (XI (XI (XI (XO (XI (XO (XO (XI (XI (XI
    (XO (XI (XI (XI (XO (XI (XO (XO (XO (XO (XO (XI (XI (XI (XI (XI (XO (XO
    (XO (XI (XO (XO (XI (XO (XI (XI
    XH))))))))))))))))))))))))))))))))))))))))))))))))))))))))))))))) :: ((Npos
    (XO (XO (XO (XO (XO (XI (XI (XO (XI (XI (XI (XI (XO (XI (XO (XO (XI (XI
    (XI (XO (XI (XO (XO (XO (XI (XI (XO (XO (XO (XO (XI (XO (XI (XI (XI (XI
    (XO (XI (XI (XO (XI (XI (XO (XO (XO (XI (XI (XO (XI (XO (XI (XO (XO (XI
    (XO (XI (XO (XO (XO (XI (XI (XI
    XH))))))))))))))))))))))))))))))))))))))))))))))))))))))))))))))) :: ((Npos
    (XO (XI (XO (XO (XI (XI (XI (XO (XI (XI (XO (XI (XO (XI (XO (XI (XO (XO
    (XO (XO (XI (XI (XI (XI (XI (XO (XO (XO (XO (XI (XO (XI (XO (XO (XI (XO
    (XI (XO (XO (XO (XO (XO (XO (XI (XI (XI (XI (XO (XO (XO (XO (XI (XO (XO
    (XI (XI (XO (XO (XI (XO (XO (XO (XO
    XH)))))))))))))))))))))))))))))))))))))))))))))))))))))))))))))))) :: ((Npos
    (XO (XO (XI (XI (XO (XI (XI (XI (XI (XO (XO (XI (XI (XI (XO (XO (XO (XO
    (XI (XO (XO (XI (XI (XO (XO (XI (XO (XI (XI (XO (XO (XO (XO (XO (XO (XI
    (XO (XO (XO (XO (XO (XI (XO (XO (XO (XO (XO (XO (XI (XI (XI (XO (XO (XO
    (XI (XI (XO (XO (XI (XI (XO (XO (XO
    XH)))))))))))))))))))))))))))))))))))))))))))))))))))))))))))))))) :: ((Npos
    (XO (XO (XO (XI (XO (XI (XO (XO (XO (XI (XI (XI (XI (XO (XO (XO (XI (XI
    (XO (XO (XO (XI (XI (XO (XI (XI (XO (XO (XO (XI (XO (XO (XO (XI (XO (XI
    (XI (XI (XI (XI (XI (XI (XI (XI (XI (XI (XI (XI (XO (XI (XI (XI (XI (XI
    (XO (XI (XO (XO (XO (XO (XI (XO (XO
    XH)))))))))))))))))))))))))))))))))))))))))))))))))))))))))))))))) :: ((Npos
    (XI (XO (XO (XI (XO (XI (XI (XI (XI (XO (XI (XI (XI (XI (XO (XI (XO (XI
    (XO (XO (XO (XO (XO (XI (XO (XI (XI (XI (XI (XO (XI (XI (XI (XI (XO (XI
    (XO (XI (XI (XI (XO (XO (XI (XI (XO (XI (XI (XO (XO (XO (XO (XO (XI (XO
    (XI (XO (XO (XO (XI (XO (XO (XI (XO
    XH)))))))))))))))))))))))))))))))))))))))))))))))))))))))))))))))) :: ((Npos
    (XI (XO (XI (XO (XI (XO (XO (XO (XI (XO (XO (XI (XI (XI (XI (XO (XO (XI
    (XI (XO (XO (XO (XI (XI (XO (XI (XO (XO (XI (XI (XO (XI (XI (XI (XI (XO
    (XI (XI (XI (XI (XI (XI (XO (XO (XO (XI (XO (XI (XI (XO (XO (XI (XI (XI
    (XI (XI (XO (XI (XI (XI (XI (XI (XO
    XH)))))))))))))))))))))))))))))))))))))))))))))))))))))))))))))))) :: ((Npos
    (XI (XI (XO (XI (XO (XI (XO (XO (XI (XI (XO (XO (XI (XO (XI (XO (XO (XI
    (XO (XO (XI (XI (XI (XO (XI (XI (XO (XO (XO (XI (XI (XI (XO (XI (XO (XO
    (XI (XI (XI (XI (XO (XO (XO (XI (XI (XI (XI (XO (XI (XO (XO (XO (XI (XI
    (XI (XO (XO (XI (XI (XO (XO (XO (XI
    XH)))))))))))))))))))))))))))))))))))))))))))))))))))))))))))))))) :: ((Npos
    (XO (XO (XI (XI (XI (XO (XO (XI (XI (XO (XO (XO (XO (XI (XI (XO (XO (XI
    (XI (XO (XO (XI (XO (XO (XO (XI (XO (XI (XO (XI (XI (XI (XO (XI (XI (XI
    (XO (XO (XI (XI (XO (XI (XI (XI (XI (XI (XO (XO (XI (XI (XI (XO (XO (XI
    (XO (XO (XO (XI (XO (XI (XO (XO (XI
    XH)))))))))))))))))))))))))))))))))))))))))))))))))))))))))))))))) :: ((Npos
    (XI (XI (XI (XO (XO (XO (XO (XO (XO (XI (XO (XO (XO (XO (XI (XI (XO (XO
    (XO (XO (XO (XO (XI (XI (XI (XO (XO (XO (XO (XI (XO (XO (XI (XI (XI (XO
    (XO (XO (XI (XI (XO (XO (XO (XI (XI (XI (XO (XI (XO (XI (XI (XO (XO (XO
    (XO (XI (XI (XO (XO (XO (XI (XO (XI
    XH)))))))))))))))))))))))))))))))))))))))))))))))))))))))))))))))) :: ((Npos
    (XO (XI (XI (XI (XI (XO (XO (XO (XI (XI (XO (XI (XO (XI (XI (XI (XO (XO
    (XO (XO (XO (XI (XI (XI (XI (XO (XI (XI (XO (XO (XI (XI (XO (XI (XI (XO
    (XI (XO (XI (XI (XI (XO (XI (XI (XI (XI (XI (XO (XO (XI (XO (XI (XI (XO
    (XI (XI (XO (XI (XO (XI (XO (XI (XI
    XH)))))))))))))))))))))))))))))))))))))))))))))))))))))))))))))))) :: ((Npos
    (XO (XO (XO (XI (XI (XI (XI (XO (XI (XO (XO (XO (XI (XO (XI (XI (XO (XI
    (XI (XI (XO (XI (XI (XO (XO (XI (XI (XI (XO (XI (XI (XI (XI (XI (XI (XI
    (XI (XI (XI (XO (XI (XI (XI (XI (XO (XO (XI (XO (XI (XO (XI (XI (XI (XI
    (XI (XO (XI (XO (XI (XO (XI (XI (XI
    XH)))))))))))))))))))))))))))))))))))))))))))))))))))))))))))))))) :: ((Npos
    (XO (XI (XO (XI (XI (XI (XO (XI (XI (XI (XI (XI (XO (XI (XI (XO (XI (XI
    (XI (XO (XI (XO (XO (XO (XO (XI (XO (XO (XI (XI (XI (XO (XO (XI (XO (XI
    (XO (XI (XO (XI (XI (XI (XI (XO (XO (XI (XI (XO (XO (XO (XO (XO (XI (XI
    (XI (XI (XO (XI
    XH))))))))))))))))))))))))))))))))))))))))))))))))))))))))))) :: ((Npos
    (XO (XI (XI (XO (XO (XI (XO (XI (XO (XO (XO (XI (XI (XO (XO (XI (XO (XO
    (XO (XI (XO (XO (XI (XI (XO (XI (XO (XO (XO (XI (XO (XI (XI (XO (XI (XO
    (XO (XO (XI (XI (XI (XO (XI (XI (XI (XI (XI (XO (XI (XI (XO (XO (XO (XI
    (XI (XO (XO (XI (XO
    XH)))))))))))))))))))))))))))))))))))))))))))))))))))))))))))) :: ((Npos
    (XO (XI (XI (XI (XO (XI (XO (XI (XI (XO (XI (XI (XO (XO (XO (XO (XI (XO
    (XO (XI (XI (XI (XI (XI (XO (XI (XI (XI (XI (XI (XO (XI (XO (XO (XI (XO
    (XO (XO (XO (XO (XO (XO (XO (XI (XI (XO (XO (XI (XI (XI (XI (XI (XI (XI
    (XO (XO (XI (XO (XO (XO
    XH))))))))))))))))))))))))))))))))))))))))))))))))))))))))))))) :: ((Npos
    (XI (XI (XO (XI (XI (XO (XO (XO (XI (XI (XI (XO (XO (XO (XI (XO (XO (XO
    (XI (XI (XI (XO (XO (XO (XI (XI (XO (XO (XI (XO (XO (XO (XI (XO (XI (XO
    (XI (XI (XO (XO (XI (XI (XO (XI (XO (XO (XO (XO (XI (XO (XO (XO (XI (XI
    (XI (XO (XI (XI (XO (XI
    XH))))))))))))))))))))))))))))))))))))))))))))))))))))))))))))) :: ((Npos
    (XO (XO (XI (XO (XO (XO (XO (XI (XI (XO (XI (XI (XI (XI (XI (XO (XO (XO
    (XI (XO (XO (XO (XO (XO (XI (XI (XO (XO (XO (XI (XO (XO (XI (XO (XI (XO
    (XI (XI (XI (XI (XI (XI (XI (XO (XI (XI (XI (XO (XI (XI (XO (XI (XI (XO
    (XI (XI (XO (XO (XO (XI (XO
    XH)))))))))))))))))))))))))))))))))))))))))))))))))))))))))))))) :: ((Npos
    (XI (XI (XO (XO (XI (XO (XO (XI (XO (XO (XI (XO (XO (XI (XO (XO (XI (XI
    (XI (XO (XO (XO (XI (XI (XO (XO (XO (XO (XO (XO (XI (XO (XI (XI (XO (XI
    (XI (XI (XI (XO (XI (XI (XO (XI (XO (XI (XO (XI (XO (XI (XO (XI (XO (XO
    (XI (XI (XO (XI (XO (XO (XI
    XH)))))))))))))))))))))))))))))))))))))))))))))))))))))))))))))) :: ((Npos
    (XO (XO (XI (XI (XI (XI (XO (XI (XO (XI (XI (XI (XI (XI (XO (XI (XI (XO
    (XO (XI (XO (XO (XI (XI (XI (XO (XI (XO (XI (XO (XO (XO (XO (XI (XO (XI
    (XO (XO (XO (XO (XO (XI (XI (XI (XI (XI (XO (XI (XO (XI (XI (XI (XI (XO
    (XO (XI (XO (XO (XI (XI (XI
    XH)))))))))))))))))))))))))))))))))))))))))))))))))))))))))))))) :: ((Npos
    (XO (XO (XI (XI (XO (XO (XI (XO (XI (XO (XI (XI (XO (XO (XO (XO (XO (XO
    (XO (XO (XI (XO (XO (XO (XO (XO (XI (XI (XI (XO (XO (XI (XO (XO (XI (XO
    (XO (XO (XI (XI (XI (XI (XI (XO (XO (XI (XI (XO (XI (XO (XI (XI (XI (XO
    (XO (XO (XI (XI (XO (XO (XO (XO
    XH))))))))))))))))))))))))))))))))))))))))))))))))))))))))))))))) :: ((Npos
    (XO (XI (XI (XO (XI (XI (XO (XI (XO (XI (XO (XO (XO (XO (XI (XO (XO (XI
    (XI (XI (XI (XI (XO (XO (XI (XI (XO (XI (XO (XO (XI (XI (XO (XI (XI (XI
    (XI (XI (XO (XI (XO (XO (XI (XO (XI (XO (XI (XI (XI (XO (XI (XO (XO (XO
    (XI (XI (XO (XO (XI (XI (XO (XO
    XH))))))))))))))))))))))))))))))))))))))))))))))))))))))))))))))) :: ((Npos
    (XO (XI (XO (XI (XO (XI (XO (XO (XO (XI (XI (XI (XI (XI (XI (XO (XI (XO
    (XI (XO (XO (XI (XI (XO (XO (XO (XI (XI (XI (XI (XI (XI (XO (XO (XI (XI
    (XI (XO (XO (XI (XI (XO (XO (XI (XO (XI (XO (XO (XI (XI (XI (XI (XI (XI
    (XI (XO (XI (XO (XO (XI (XI (XO
    XH))))))))))))))))))))))))))))))))))))))))))))))))))))))))))))))) :: ((Npos
    (XO (XO (XI (XI (XO (XI (XI (XI (XO (XI (XO (XI (XI (XI (XI (XI (XO (XI
    (XI (XO (XI (XO (XI (XI (XO (XI (XO (XI (XI (XI (XO (XO (XI (XI (XO (XI
    (XO (XI (XO (XI (XI (XI (XI (XI (XO (XI (XI (XO (XI (XI (XO (XI (XO (XO
    (XI (XI (XI (XI (XI (XI (XI (XO
    XH))))))))))))))))))))))))))))))))))))))))))))))))))))))))))))))) :: ((Npos
    (XI (XI (XI (XO (XI (XO (XO (XO (XO (XO (XO (XI (XI (XO (XI (XO (XI (XI
    (XI (XO (XO (XO (XI (XO (XO (XI (XO (XI (XO (XO (XI (XO (XO (XO (XI (XI
    (XO (XO (XO (XI (XI (XO (XO (XI (XI (XO (XO (XO (XO (XO (XI (XO (XO (XO
    (XI (XO (XO (XO (XI (XI (XO (XI
    XH))))))))))))))))))))))))))))))))))))))))))))))))))))))))))))))) :: [])))))))))))))))))))))))))))))))))))))))))))))))))))))))))))))))))))))))))))))))

(** val h512 : n list **)

let h512 =
  (Npos (XO (XO (XO (XI (XO (XO (XO (XO (XI (XO (XO (XI (XO (XO (XI (XI (XO
    (XO (XI (XI (XI (XI (XO (XI (XI (XI (XO (XO (XI (XI (XI (XI (XI (XI (XI
    (XO (XO (XI (XI (XO (XO (XI (XI (XO (XO (XI (XI (XI (XI (XO (XO (XI (XO
    (XO (XO (XO (XO (XI (XO (XI (XO (XI
    XH))))))))))))))))))))))))))))))))))))))))))))))))))))))))))))))) :: ((Npos
    (XI (XI (XO (XI (XI (XI (XO (XO (XI (XI (XI (XO (XO (XI (XO (XI (XO (XI
    (XO (XI (XO (XO (XI (XI (XO (XO (XI (XO (XO (XO (XO (XI (XI (XO (XI (XO
    (XO (XO (XO (XI (XO (XI (XI (XI (XO (XI (XO (XI (XI (XI (XI (XO (XO (XI
    (XI (XO (XI (XI (XO (XI (XI (XI (XO
    XH)))))))))))))))))))))))))))))))))))))))))))))))))))))))))))))))) :: ((Npos
    (XI (XI (XO (XI (XO (XI (XO (XO (XO (XO (XO (XI (XI (XI (XI (XI (XO (XO
    (XI (XO (XI (XO (XO (XI (XO (XI (XI (XI (XI (XI (XI (XI (XO (XI (XO (XO
    (XI (XI (XI (XO (XI (XI (XO (XO (XI (XI (XI (XI (XO (XI (XI (XI (XO (XI
    (XI (XO (XO (XO (XI (XI (XI
    XH)))))))))))))))))))))))))))))))))))))))))))))))))))))))))))))) :: ((Npos
    (XI (XO (XO (XO (XI (XI (XI (XI (XO (XI (XI (XO (XI (XI (XO (XO (XI (XO
    (XI (XI (XI (XO (XO (XO (XI (XI (XI (XI (XI (XO (XI (XO (XO (XI (XO (XI
    (XI (XI (XO (XO (XI (XO (XI (XO (XI (XI (XI (XI (XI (XI (XI (XI (XO (XO
    (XI (XO (XI (XO (XI (XO (XO (XI (XO
    XH)))))))))))))))))))))))))))))))))))))))))))))))))))))))))))))))) :: ((Npos
    (XI (XO (XO (XO (XI (XO (XI (XI (XO (XI (XO (XO (XO (XO (XO (XI (XO (XI
    (XI (XO (XO (XI (XI (XI (XI (XO (XI (XI (XO (XI (XO (XI (XI (XI (XI (XI
    (XI (XI (XI (XO (XO (XI (XO (XO (XI (XO (XI (XO (XO (XI (XI (XI (XO (XO
    (XO (XO (XI (XO (XO (XO (XI (XO
    XH))))))))))))))))))))))))))))))))))))))))))))))))))))))))))))))) :: ((Npos
    (XI (XI (XI (XI (XI (XO (XO (XO (XO (XO (XI (XI (XO (XI (XI (XO (XO (XI
    (XI (XI (XI (XI (XO (XO (XI (XI (XO (XI (XO (XI (XO (XO (XO (XO (XI (XI
    (XO (XO (XO (XI (XO (XO (XO (XI (XO (XI (XI (XO (XI (XO (XI (XO (XO (XO
    (XO (XO (XI (XI (XO (XI (XI (XO (XO
    XH)))))))))))))))))))))))))))))))))))))))))))))))))))))))))))))))) :: ((Npos
    (XI (XI (XO (XI (XO (XI (XI (XO (XI (XO (XI (XI (XI (XI (XO (XI (XI (XO
    (XO (XO (XO (XO (XI (XO (XI (XI (XO (XI (XI (XI (XI (XI (XI (XI (XO (XI
    (XO (XI (XO (XI (XI (XO (XO (XI (XI (XO (XI (XI (XI (XI (XO (XO (XO (XO
    (XO (XI (XI (XI (XI (XI
    XH))))))))))))))))))))))))))))))))))))))))))))))))))))))))))))) :: ((Npos
    (XI (XO (XO (XI (XI (XI (XI (XO (XI (XO (XO (XO (XO (XI (XO (XO (XO (XI
    (XI (XI (XI (XI (XI (XO (XI (XI (XO (XO (XI (XO (XO (XO (XI (XO (XO (XI
    (XI (XO (XO (XO (XI (XO (XI (XI (XO (XO (XI (XI (XO (XO (XO (XO (XO (XI
    (XI (XI (XI (XI (XO (XI (XI (XO
    XH))))))))))))))))))))))))))))))))))))))))))))))))))))))))))))))) :: [])))))))

(** val compress256 : n list -> n list -> n list **)

let compress256 =
  compress (Npos (XO (XO (XO (XO (XO XH)))))) (Npos (XO XH)) (Npos (XI (XO
    (XI XH)))) (Npos (XO (XI (XI (XO XH))))) (Npos (XO (XI XH))) (Npos (XI
    (XI (XO XH)))) (Npos (XI (XO (XO (XI XH))))) (Npos (XI (XI XH))) (Npos
    (XO (XI (XO (XO XH))))) (Npos (XI XH)) (Npos (XI (XO (XO (XO XH)))))
    (Npos (XI (XI (XO (XO XH))))) (Npos (XO (XI (XO XH)))) k256

(** val compress512 : n list -> n list -> n list **)

let compress512 =
  compress (Npos (XO (XO (XO (XO (XO (XO XH))))))) (Npos (XO (XO (XI (XI
    XH))))) (Npos (XO (XI (XO (XO (XO XH)))))) (Npos (XI (XI (XI (XO (XO
    XH)))))) (Npos (XO (XI (XI XH)))) (Npos (XO (XI (XO (XO XH))))) (Npos (XI
    (XO (XO (XI (XO XH)))))) (Npos XH) (Npos (XO (XO (XO XH)))) (Npos (XI (XI
    XH))) (Npos (XI (XI (XO (XO XH))))) (Npos (XI (XO (XI (XI (XI XH))))))
    (Npos (XO (XI XH))) k512

(** val sha256_N : n list -> n list **)

let sha256_N msg =
  let p =
    sha_pad (S (S (S (S (S (S (S (S (S (S (S (S (S (S (S (S (S (S (S (S (S (S
      (S (S (S (S (S (S (S (S (S (S (S (S (S (S (S (S (S (S (S (S (S (S (S (S
      (S (S (S (S (S (S (S (S (S (S (S (S (S (S (S (S (S (S
      O)))))))))))))))))))))))))))))))))))))))))))))))))))))))))))))))) (S (S
      (S (S (S (S (S (S O)))))))) msg
  in
  flat_map (be_bytes (S (S (S (S O)))))
    (blocks (S (S (S (S (S (S (S (S (S (S (S (S (S (S (S (S (S (S (S (S (S (S
      (S (S (S (S (S (S (S (S (S (S (S (S (S (S (S (S (S (S (S (S (S (S (S (S
      (S (S (S (S (S (S (S (S (S (S (S (S (S (S (S (S (S (S
      O)))))))))))))))))))))))))))))))))))))))))))))))))))))))))))))))) (S (S
      (S (S O))))
      (Nat.div (length p) (S (S (S (S (S (S (S (S (S (S (S (S (S (S (S (S (S
        (S (S (S (S (S (S (S (S (S (S (S (S (S (S (S (S (S (S (S (S (S (S (S
        (S (S (S (S (S (S (S (S (S (S (S (S (S (S (S (S (S (S (S (S (S (S (S
        (S O)))))))))))))))))))))))))))))))))))))))))))))))))))))))))))))))))
      compress256 h256 p)

(** val sha512_N : n list -> n list **)

let sha512_N msg =
  let p =
    sha_pad (S (S (S (S (S (S (S (S (S (S (S (S (S (S (S (S (S (S (S (S (S (S
      (S (S (S (S (S (S (S (S (S (S (S (S (S (S (S (S (S (S (S (S (S (S (S (S
      (S (S (S (S (S (S (S (S (S (S (S (S (S (S (S (S (S (S (S (S (S (S (S (S
      (S (S (S (S (S (S (S (S (S (S (S (S (S (S (S (S (S (S (S (S (S (S (S (S
      (S (S (S (S (S (S (S (S (S (S (S (S (S (S (S (S (S (S (S (S (S (S (S (S
      (S (S (S (S (S (S (S (S (S (S
      O))))))))))))))))))))))))))))))))))))))))))))))))))))))))))))))))))))))))))))))))))))))))))))))))))))))))))))))))))))))))))))))))
      (S (S (S (S (S (S (S (S (S (S (S (S (S (S (S (S O)))))))))))))))) msg
  in
  flat_map (be_bytes (S (S (S (S (S (S (S (S O)))))))))
    (blocks (S (S (S (S (S (S (S (S (S (S (S (S (S (S (S (S (S (S (S (S (S (S
      (S (S (S (S (S (S (S (S (S (S (S (S (S (S (S (S (S (S (S (S (S (S (S (S
      (S (S (S (S (S (S (S (S (S (S (S (S (S (S (S (S (S (S (S (S (S (S (S (S
      (S (S (S (S (S (S (S (S (S (S (S (S (S (S (S (S (S (S (S (S (S (S (S (S
      (S (S (S (S (S (S (S (S (S (S (S (S (S (S (S (S (S (S (S (S (S (S (S (S
      (S (S (S (S (S (S (S (S (S (S
      O))))))))))))))))))))))))))))))))))))))))))))))))))))))))))))))))))))))))))))))))))))))))))))))))))))))))))))))))))))))))))))))))
      (S (S (S (S (S (S (S (S O))))))))
      (Nat.div (length p) (S (S (S (S (S (S (S (S (S (S (S (S (S (S (S (S (S
        (S (S (S (S (S (S (S (S (S (S (S (S (S (S (S (S (S (S (S (S (S (S (S
        (S (S (S (S (S (S (S (S (S (S (S (S (S (S (S (S (S (S (S (S (S (S (S
        (S (S (S (S (S (S (S (S (S (S (S (S (S (S (S (S (S (S (S (S (S (S (S
        (S (S (S (S (S (S (S (S (S (S (S (S (S (S (S (S (S (S (S (S (S (S (S
        (S (S (S (S (S (S (S (S (S (S (S (S (S (S (S (S (S (S (S
        O)))))))))))))))))))))))))))))))))))))))))))))))))))))))))))))))))))))))))))))))))))))))))))))))))))))))))))))))))))))))))))))))))
      compress512 h512 p)

(** val sha256 : z list -> z list **)

let sha256 msg =
  map Z.of_N (sha256_N (map Z.to_N msg))

(** val sha512 : z list -> z list **)

let sha512 msg =
  map Z.of_N (sha512_N (map Z.to_N msg))

type hashes = { h_shake256 : (bytes -> nat -> bytes);
                h_shake128 : (bytes -> nat -> bytes);
                h_sha256 : (bytes -> bytes); h_sha512 : (bytes -> bytes) }

(** val real_hashes : hashes **)

let real_hashes =
  { h_shake256 = shake256; h_shake128 = shake128; h_sha256 = sha256;
    h_sha512 = sha512 }

(** val is_in_range : z list -> z -> z -> bool **)

let is_in_range w lo hi =
  forallb (fun e -> (&&) (Z.leb (Z.opp lo) e) (Z.leb e hi)) w

(** val pR64_M : z **)

let pR64_M =
  Z.div (Z.pow (Zpos (XO XH)) (Zpos (XO (XO (XO (XO (XI XH))))))) q

(** val pR64_BOUND : z **)

let pR64_BOUND =
  Z.mul (Zpos (XI (XI (XO (XI (XO (XI (XI (XO (XI (XI (XO (XI (XI (XI (XO (XO
    (XI (XI (XI (XI (XI (XI (XI (XI (XI XH))))))))))))))))))))))))))
    (Z.pow (Zpos (XO XH)) (Zpos (XO (XO (XO (XO (XO XH)))))))

(** val pR32_BOUND : z **)

let pR32_BOUND =
  Zpos (XO (XO (XO (XO (XO (XO (XO (XO (XO (XO (XO (XO (XO (XO (XO (XO (XO
    (XO (XO (XO (XO (XO (XI (XI (XI (XI (XI (XI (XI (XI
    XH))))))))))))))))))))))))))))))

(** val partial_reduce64 : z -> z res **)

let partial_reduce64 a =
  bind (abs64 a) (fun aa ->
    bind
      (guard (Z.ltb aa pR64_BOUND) (String ((Ascii (false, false, false,
        false, true, true, true, false)), (String ((Ascii (true, false,
        false, false, false, true, true, false)), (String ((Ascii (false,
        true, false, false, true, true, true, false)), (String ((Ascii
        (false, false, true, false, true, true, true, false)), (String
        ((Ascii (true, false, false, true, false, true, true, false)),
        (String ((Ascii (true, false, false, false, false, true, true,
        false)), (String ((Ascii (false, false, true, true, false, true,
        true, false)), (String ((Ascii (true, true, true, true, true, false,
        true, false)), (String ((Ascii (false, true, false, false, true,
        true, true, false)), (String ((Ascii (true, false, true, false,
        false, true, true, false)), (String ((Ascii (false, false, true,
        false, false, true, true, false)), (String ((Ascii (true, false,
        true, false, true, true, true, false)), (String ((Ascii (true, true,
        false, false, false, true, true, false)), (String ((Ascii (true,
        false, true, false, false, true, true, false)), (String ((Ascii
        (false, true, true, false, true, true, false, false)), (String
        ((Ascii (false, false, true, false, true, true, false, false)),
        (String ((Ascii (false, false, false, false, false, true, false,
        false)), (String ((Ascii (true, false, false, true, false, true,
        true, false)), (String ((Ascii (false, true, true, true, false, true,
        true, false)), (String ((Ascii (false, false, false, false, true,
        true, true, false)), (String ((Ascii (true, false, true, false, true,
        true, true, false)), (String ((Ascii (false, false, true, false,
        true, true, true, false)),
        EmptyString))))))))))))))))))))))))))))))))))))))))))))) (fun _ ->
      let x = shr a (Zpos (XI (XI (XI (XO XH))))) in
      bind (mul64 x q) (fun t ->
        bind (sub64 a t) (fun a1 ->
          let x0 = shr a1 (Zpos (XI (XI (XI (XO XH))))) in
          bind (mul64 x0 q) (fun t0 ->
            bind (sub64 a1 t0) (fun a2 ->
              bind (mul64 a2 pR64_M) (fun t1 ->
                let q0 = shr t1 (Zpos (XO (XO (XO (XO (XI XH)))))) in
                bind (mul64 q0 q) (fun t2 ->
                  bind (sub64 a2 t2) (fun r ->
                    bind (abs64 r) (fun ar ->
                      bind
                        (guard (Z.ltb ar (Z.mul (Zpos (XO XH)) q)) (String
                          ((Ascii (false, false, false, false, true, true,
                          true, false)), (String ((Ascii (true, false, false,
                          false, false, true, true, false)), (String ((Ascii
                          (false, true, false, false, true, true, true,
                          false)), (String ((Ascii (false, false, true,
                          false, true, true, true, false)), (String ((Ascii
                          (true, false, false, true, false, true, true,
                          false)), (String ((Ascii (true, false, false,
                          false, false, true, true, false)), (String ((Ascii
                          (false, false, true, true, false, true, true,
                          false)), (String ((Ascii (true, true, true, true,
                          true, false, true, false)), (String ((Ascii (false,
                          true, false, false, true, true, true, false)),
                          (String ((Ascii (true, false, true, false, false,
                          true, true, false)), (String ((Ascii (false, false,
                          true, false, false, true, true, false)), (String
                          ((Ascii (true, false, true, false, true, true,
                          true, false)), (String ((Ascii (true, true, false,
                          false, false, true, true, false)), (String ((Ascii
                          (true, false, true, false, false, true, true,
                          false)), (String ((Ascii (false, true, true, false,
                          true, true, false, false)), (String ((Ascii (false,
                          false, true, false, true, true, false, false)),
                          (String ((Ascii (false, false, false, false, false,
                          true, false, false)), (String ((Ascii (true, true,
                          true, true, false, true, true, false)), (String
                          ((Ascii (true, false, true, false, true, true,
                          true, false)), (String ((Ascii (false, false, true,
                          false, true, true, true, false)), (String ((Ascii
                          (false, false, false, false, true, true, true,
                          false)), (String ((Ascii (true, false, true, false,
                          true, true, true, false)), (String ((Ascii (false,
                          false, true, false, true, true, true, false)),
                          EmptyString)))))))))))))))))))))))))))))))))))))))))))))))
                        (fun _ -> Ok (wrap32 r))))))))))))

(** val partial_reduce32 : z -> z res **)

let partial_reduce32 a =
  bind (abs32 a) (fun aa ->
    bind
      (guard (Z.ltb aa pR32_BOUND) (String ((Ascii (false, false, false,
        false, true, true, true, false)), (String ((Ascii (true, false,
        false, false, false, true, true, false)), (String ((Ascii (false,
        true, false, false, true, true, true, false)), (String ((Ascii
        (false, false, true, false, true, true, true, false)), (String
        ((Ascii (true, false, false, true, false, true, true, false)),
        (String ((Ascii (true, false, false, false, false, true, true,
        false)), (String ((Ascii (false, false, true, true, false, true,
        true, false)), (String ((Ascii (true, true, true, true, true, false,
        true, false)), (String ((Ascii (false, true, false, false, true,
        true, true, false)), (String ((Ascii (true, false, true, false,
        false, true, true, false)), (String ((Ascii (false, false, true,
        false, false, true, true, false)), (String ((Ascii (true, false,
        true, false, true, true, true, false)), (String ((Ascii (true, true,
        false, false, false, true, true, false)), (String ((Ascii (true,
        false, true, false, false, true, true, false)), (String ((Ascii
        (true, true, false, false, true, true, false, false)), (String
        ((Ascii (false, true, false, false, true, true, false, false)),
        (String ((Ascii (false, false, false, false, false, true, false,
        false)), (String ((Ascii (true, false, false, true, false, true,
        true, false)), (String ((Ascii (false, true, true, true, false, true,
        true, false)), (String ((Ascii (false, false, false, false, true,
        true, true, false)), (String ((Ascii (true, false, true, false, true,
        true, true, false)), (String ((Ascii (false, false, true, false,
        true, true, true, false)),
        EmptyString))))))))))))))))))))))))))))))))))))))))))))) (fun _ ->
      bind (add32 a (Z.pow (Zpos (XO XH)) (Zpos (XO (XI (XI (XO XH)))))))
        (fun t ->
        let x = shr t (Zpos (XI (XI (XI (XO XH))))) in
        bind (mul32 x q) (fun t0 ->
          bind (sub32 a t0) (fun r ->
            bind (abs32 r) (fun ar ->
              bind
                (guard (Z.ltb ar q) (String ((Ascii (false, false, false,
                  false, true, true, true, false)), (String ((Ascii (true,
                  false, false, false, false, true, true, false)), (String
                  ((Ascii (false, true, false, false, true, true, true,
                  false)), (String ((Ascii (false, false, true, false, true,
                  true, true, false)), (String ((Ascii (true, false, false,
                  true, false, true, true, false)), (String ((Ascii (true,
                  false, false, false, false, true, true, false)), (String
                  ((Ascii (false, false, true, true, false, true, true,
                  false)), (String ((Ascii (true, true, true, true, true,
                  false, true, false)), (String ((Ascii (false, true, false,
                  false, true, true, true, false)), (String ((Ascii (true,
                  false, true, false, false, true, true, false)), (String
                  ((Ascii (false, false, true, false, false, true, true,
                  false)), (String ((Ascii (true, false, true, false, true,
                  true, true, false)), (String ((Ascii (true, true, false,
                  false, false, true, true, false)), (String ((Ascii (true,
                  false, true, false, false, true, true, false)), (String
                  ((Ascii (true, true, false, false, true, true, false,
                  false)), (String ((Ascii (false, true, false, false, true,
                  true, false, false)), (String ((Ascii (false, false, false,
                  false, false, true, false, false)), (String ((Ascii (true,
                  true, true, true, false, true, true, false)), (String
                  ((Ascii (true, false, true, false, true, true, true,
                  false)), (String ((Ascii (false, false, true, false, true,
                  true, true, false)), (String ((Ascii (false, false, false,
                  false, true, true, true, false)), (String ((Ascii (true,
                  false, true, false, true, true, true, false)), (String
                  ((Ascii (false, false, true, false, true, true, true,
                  false)),
                  EmptyString)))))))))))))))))))))))))))))))))))))))))))))))
                (fun _ -> Ok r)))))))

(** val full_reduce32 : z -> z res **)

let full_reduce32 a =
  bind (abs32 a) (fun aa ->
    bind
      (guard (Z.ltb aa pR32_BOUND) (String ((Ascii (false, true, true, false,
        false, true, true, false)), (String ((Ascii (true, false, true,
        false, true, true, true, false)), (String ((Ascii (false, false,
        true, true, false, true, true, false)), (String ((Ascii (false,
        false, true, true, false, true, true, false)), (String ((Ascii (true,
        true, true, true, true, false, true, false)), (String ((Ascii (false,
        true, false, false, true, true, true, false)), (String ((Ascii (true,
        false, true, false, false, true, true, false)), (String ((Ascii
        (false, false, true, false, false, true, true, false)), (String
        ((Ascii (true, false, true, false, true, true, true, false)), (String
        ((Ascii (true, true, false, false, false, true, true, false)),
        (String ((Ascii (true, false, true, false, false, true, true,
        false)), (String ((Ascii (true, true, false, false, true, true,
        false, false)), (String ((Ascii (false, true, false, false, true,
        true, false, false)), (String ((Ascii (false, false, false, false,
        false, true, false, false)), (String ((Ascii (true, false, false,
        true, false, true, true, false)), (String ((Ascii (false, true, true,
        true, false, true, true, false)), (String ((Ascii (false, false,
        false, false, true, true, true, false)), (String ((Ascii (true,
        false, true, false, true, true, true, false)), (String ((Ascii
        (false, false, true, false, true, true, true, false)),
        EmptyString))))))))))))))))))))))))))))))))))))))) (fun _ ->
      bind (partial_reduce32 a) (fun x ->
        bind (add32 x (Z.coq_land (shr x (Zpos (XI (XI (XI (XI XH)))))) q))
          (fun r ->
          bind
            (guard (Z.ltb r q) (String ((Ascii (false, true, true, false,
              false, true, true, false)), (String ((Ascii (true, false, true,
              false, true, true, true, false)), (String ((Ascii (false,
              false, true, true, false, true, true, false)), (String ((Ascii
              (false, false, true, true, false, true, true, false)), (String
              ((Ascii (true, true, true, true, true, false, true, false)),
              (String ((Ascii (false, true, false, false, true, true, true,
              false)), (String ((Ascii (true, false, true, false, false,
              true, true, false)), (String ((Ascii (false, false, true,
              false, false, true, true, false)), (String ((Ascii (true,
              false, true, false, true, true, true, false)), (String ((Ascii
              (true, true, false, false, false, true, true, false)), (String
              ((Ascii (true, false, true, false, false, true, true, false)),
              (String ((Ascii (true, true, false, false, true, true, false,
              false)), (String ((Ascii (false, true, false, false, true,
              true, false, false)), (String ((Ascii (false, false, false,
              false, false, true, false, false)), (String ((Ascii (true,
              true, true, true, false, true, true, false)), (String ((Ascii
              (true, false, true, false, true, true, true, false)), (String
              ((Ascii (false, false, true, false, true, true, true, false)),
              (String ((Ascii (false, false, false, false, true, true, true,
              false)), (String ((Ascii (true, false, true, false, true, true,
              true, false)), (String ((Ascii (false, false, true, false,
              true, true, true, false)),
              EmptyString))))))))))))))))))))))))))))))))))))))))) (fun _ ->
            Ok r)))))

(** val bit_length : z -> z res **)

let bit_length x =
  bind
    (guard (Z.ltb Z0 x) (String ((Ascii (true, false, false, true, false,
      true, true, false)), (String ((Ascii (false, false, true, true, false,
      true, true, false)), (String ((Ascii (true, true, true, true, false,
      true, true, false)), (String ((Ascii (true, true, true, false, false,
      true, true, false)), (String ((Ascii (false, true, false, false, true,
      true, false, false)), (String ((Ascii (false, false, false, false,
      false, true, false, false)), (String ((Ascii (true, true, true, true,
      false, true, true, false)), (String ((Ascii (false, true, true, false,
      false, true, true, false)), (String ((Ascii (false, false, false,
      false, false, true, false, false)), (String ((Ascii (false, true, true,
      true, false, true, true, false)), (String ((Ascii (true, true, true,
      true, false, true, true, false)), (String ((Ascii (false, true, true,
      true, false, true, true, false)), (String ((Ascii (true, false, true,
      true, false, true, false, false)), (String ((Ascii (false, false,
      false, false, true, true, true, false)), (String ((Ascii (true, true,
      true, true, false, true, true, false)), (String ((Ascii (true, true,
      false, false, true, true, true, false)), (String ((Ascii (true, false,
      false, true, false, true, true, false)), (String ((Ascii (false, false,
      true, false, true, true, true, false)), (String ((Ascii (true, false,
      false, true, false, true, true, false)), (String ((Ascii (false, true,
      true, false, true, true, true, false)), (String ((Ascii (true, false,
      true, false, false, true, true, false)),
      EmptyString))))))))))))))))))))))))))))))))))))))))))) (fun _ -> Ok
    (Z.add (Z.log2 x) (Zpos XH)))

(** val bitlen : z -> z **)

let bitlen x =
  Z.add (Z.log2 x) (Zpos XH)

(** val center_mod : z -> z res **)

let center_mod m =
  bind (abs32 m) (fun am ->
    bind
      (guard (Z.ltb am pR32_BOUND) (String ((Ascii (true, true, false, false,
        false, true, true, false)), (String ((Ascii (true, false, true,
        false, false, true, true, false)), (String ((Ascii (false, true,
        true, true, false, true, true, false)), (String ((Ascii (false,
        false, true, false, true, true, true, false)), (String ((Ascii (true,
        false, true, false, false, true, true, false)), (String ((Ascii
        (false, true, false, false, true, true, true, false)), (String
        ((Ascii (true, true, true, true, true, false, true, false)), (String
        ((Ascii (true, false, true, true, false, true, true, false)), (String
        ((Ascii (true, true, true, true, false, true, true, false)), (String
        ((Ascii (false, false, true, false, false, true, true, false)),
        (String ((Ascii (false, false, false, false, false, true, false,
        false)), (String ((Ascii (true, false, false, true, false, true,
        true, false)), (String ((Ascii (false, true, true, true, false, true,
        true, false)), (String ((Ascii (false, false, false, false, true,
        true, true, false)), (String ((Ascii (true, false, true, false, true,
        true, true, false)), (String ((Ascii (false, false, true, false,
        true, true, true, false)),
        EmptyString))))))))))))))))))))))))))))))))) (fun _ ->
      bind (full_reduce32 m) (fun t ->
        bind (sub32 (Z.div q (Zpos (XO XH))) t) (fun over2 ->
          bind
            (sub32 t (Z.coq_land (shr over2 (Zpos (XI (XI (XI (XI XH)))))) q))
            (fun r ->
            bind
              (guard (Z.eqb (Z.modulo m q) (Z.modulo r q)) (String ((Ascii
                (true, true, false, false, false, true, true, false)),
                (String ((Ascii (true, false, true, false, false, true, true,
                false)), (String ((Ascii (false, true, true, true, false,
                true, true, false)), (String ((Ascii (false, false, true,
                false, true, true, true, false)), (String ((Ascii (true,
                false, true, false, false, true, true, false)), (String
                ((Ascii (false, true, false, false, true, true, true,
                false)), (String ((Ascii (true, true, true, true, true,
                false, true, false)), (String ((Ascii (true, false, true,
                true, false, true, true, false)), (String ((Ascii (true,
                true, true, true, false, true, true, false)), (String ((Ascii
                (false, false, true, false, false, true, true, false)),
                (String ((Ascii (false, false, false, false, false, true,
                false, false)), (String ((Ascii (true, true, true, true,
                false, true, true, false)), (String ((Ascii (true, false,
                true, false, true, true, true, false)), (String ((Ascii
                (false, false, true, false, true, true, true, false)),
                (String ((Ascii (false, false, false, false, true, true,
                true, false)), (String ((Ascii (true, false, true, false,
                true, true, true, false)), (String ((Ascii (false, false,
                true, false, true, true, true, false)),
                EmptyString))))))))))))))))))))))))))))))))))) (fun _ -> Ok r))))))

(** val mONT_LO : z **)

let mONT_LO =
  Zneg (XO (XO (XO (XO (XO (XO (XO (XO (XO (XO (XO (XO (XO (XI (XI (XI (XI
    (XI (XI (XI (XI (XI (XI (XO (XO (XO (XO (XO (XO (XO (XO (XI (XO (XO (XO
    (XO (XO (XO (XO (XO (XO (XO (XO (XO (XI (XI (XI (XI (XI (XI (XI (XI (XI
    XH)))))))))))))))))))))))))))))))))))))))))))))))))))))

(** val mONT_HI : z **)

let mONT_HI =
  Zpos (XI (XI (XI (XI (XI (XI (XI (XI (XI (XI (XI (XI (XI (XI (XI (XI (XI
    (XI (XI (XI (XI (XI (XI (XI (XI (XI (XI (XI (XI (XI (XI (XO (XO (XO (XO
    (XO (XO (XO (XO (XO (XO (XO (XO (XO (XI (XI (XI (XI (XI (XI (XI (XI (XI
    XH)))))))))))))))))))))))))))))))))))))))))))))))))))))

(** val mont_reduce : z -> z res **)

let mont_reduce a =
  bind
    (guard (Z.leb mONT_LO a) (String ((Ascii (true, false, true, true, false,
      true, true, false)), (String ((Ascii (true, true, true, true, false,
      true, true, false)), (String ((Ascii (false, true, true, true, false,
      true, true, false)), (String ((Ascii (false, false, true, false, true,
      true, true, false)), (String ((Ascii (true, true, true, true, true,
      false, true, false)), (String ((Ascii (false, true, false, false, true,
      true, true, false)), (String ((Ascii (true, false, true, false, false,
      true, true, false)), (String ((Ascii (false, false, true, false, false,
      true, true, false)), (String ((Ascii (true, false, true, false, true,
      true, true, false)), (String ((Ascii (true, true, false, false, false,
      true, true, false)), (String ((Ascii (true, false, true, false, false,
      true, true, false)), (String ((Ascii (false, false, false, false,
      false, true, false, false)), (String ((Ascii (true, false, false, true,
      false, true, true, false)), (String ((Ascii (false, true, true, true,
      false, true, true, false)), (String ((Ascii (false, false, false,
      false, true, true, true, false)), (String ((Ascii (true, false, true,
      false, true, true, true, false)), (String ((Ascii (false, false, true,
      false, true, true, true, false)), (String ((Ascii (false, false, false,
      false, false, true, false, false)), (String ((Ascii (false, false,
      false, true, false, true, false, false)), (String ((Ascii (true, false,
      false, false, false, true, true, false)), (String ((Ascii (true, false,
      false, true, false, true, false, false)),
      EmptyString))))))))))))))))))))))))))))))))))))))))))) (fun _ ->
    bind
      (guard (Z.leb a mONT_HI) (String ((Ascii (true, false, true, true,
        false, true, true, false)), (String ((Ascii (true, true, true, true,
        false, true, true, false)), (String ((Ascii (false, true, true, true,
        false, true, true, false)), (String ((Ascii (false, false, true,
        false, true, true, true, false)), (String ((Ascii (true, true, true,
        true, true, false, true, false)), (String ((Ascii (false, true,
        false, false, true, true, true, false)), (String ((Ascii (true,
        false, true, false, false, true, true, false)), (String ((Ascii
        (false, false, true, false, false, true, true, false)), (String
        ((Ascii (true, false, true, false, true, true, true, false)), (String
        ((Ascii (true, true, false, false, false, true, true, false)),
        (String ((Ascii (true, false, true, false, false, true, true,
        false)), (String ((Ascii (false, false, false, false, false, true,
        false, false)), (String ((Ascii (true, false, false, true, false,
        true, true, false)), (String ((Ascii (false, true, true, true, false,
        true, true, false)), (String ((Ascii (false, false, false, false,
        true, true, true, false)), (String ((Ascii (true, false, true, false,
        true, true, true, false)), (String ((Ascii (false, false, true,
        false, true, true, true, false)), (String ((Ascii (false, false,
        false, false, false, true, false, false)), (String ((Ascii (false,
        false, false, true, false, true, false, false)), (String ((Ascii
        (false, true, false, false, false, true, true, false)), (String
        ((Ascii (true, false, false, true, false, true, false, false)),
        EmptyString))))))))))))))))))))))))))))))))))))))))))) (fun _ ->
      let t = wrap32 (Z.mul (wrap32 a) qINV) in
      bind (sub64 a (wrap64 (Z.mul t q))) (fun d0 ->
        let r = shr d0 (Zpos (XO (XO (XO (XO (XO XH)))))) in
        bind
          (guard (Z.ltb r q) (String ((Ascii (true, false, true, true, false,
            true, true, false)), (String ((Ascii (true, true, true, true,
            false, true, true, false)), (String ((Ascii (false, true, true,
            true, false, true, true, false)), (String ((Ascii (false, false,
            true, false, true, true, true, false)), (String ((Ascii (true,
            true, true, true, true, false, true, false)), (String ((Ascii
            (false, true, false, false, true, true, true, false)), (String
            ((Ascii (true, false, true, false, false, true, true, false)),
            (String ((Ascii (false, false, true, false, false, true, true,
            false)), (String ((Ascii (true, false, true, false, true, true,
            true, false)), (String ((Ascii (true, true, false, false, false,
            true, true, false)), (String ((Ascii (true, false, true, false,
            false, true, true, false)), (String ((Ascii (false, false, false,
            false, false, true, false, false)), (String ((Ascii (true, true,
            true, true, false, true, true, false)), (String ((Ascii (true,
            false, true, false, true, true, true, false)), (String ((Ascii
            (false, false, true, false, true, true, true, false)), (String
            ((Ascii (false, false, false, false, true, true, true, false)),
            (String ((Ascii (true, false, true, false, true, true, true,
            false)), (String ((Ascii (false, false, true, false, true, true,
            true, false)), (String ((Ascii (false, false, false, false,
            false, true, false, false)), (String ((Ascii (true, false, false,
            false, true, true, false, false)),
            EmptyString))))))))))))))))))))))))))))))))))))))))) (fun _ ->
          bind
            (guard (Z.ltb (Z.opp q) r) (String ((Ascii (true, false, true,
              true, false, true, true, false)), (String ((Ascii (true, true,
              true, true, false, true, true, false)), (String ((Ascii (false,
              true, true, true, false, true, true, false)), (String ((Ascii
              (false, false, true, false, true, true, true, false)), (String
              ((Ascii (true, true, true, true, true, false, true, false)),
              (String ((Ascii (false, true, false, false, true, true, true,
              false)), (String ((Ascii (true, false, true, false, false,
              true, true, false)), (String ((Ascii (false, false, true,
              false, false, true, true, false)), (String ((Ascii (true,
              false, true, false, true, true, true, false)), (String ((Ascii
              (true, true, false, false, false, true, true, false)), (String
              ((Ascii (true, false, true, false, false, true, true, false)),
              (String ((Ascii (false, false, false, false, false, true,
              false, false)), (String ((Ascii (true, true, true, true, false,
              true, true, false)), (String ((Ascii (true, false, true, false,
              true, true, true, false)), (String ((Ascii (false, false, true,
              false, true, true, true, false)), (String ((Ascii (false,
              false, false, false, true, true, true, false)), (String ((Ascii
              (true, false, true, false, true, true, true, false)), (String
              ((Ascii (false, false, true, false, true, true, true, false)),
              (String ((Ascii (false, false, false, false, false, true,
              false, false)), (String ((Ascii (false, true, false, false,
              true, true, false, false)),
              EmptyString))))))))))))))))))))))))))))))))))))))))) (fun _ ->
            Ok (wrap32 r))))))

(** val to_mont_coef : z -> z res **)

let to_mont_coef x =
  partial_reduce64 (shl64 x (Zpos (XO (XO (XO (XO (XO XH)))))))

(** val to_mont_poly : z list -> z list res **)

let to_mont_poly p =
  mapM to_mont_coef p

(** val to_mont : z list list -> z list list res **)

let to_mont v =
  mapM to_mont_poly v

(** val add_poly : z list -> z list -> z list res **)

let add_poly a b =
  map2M add32 a b

(** val add_vector_ntt : z list list -> z list list -> z list list res **)

let add_vector_ntt v w =
  map2M add_poly v w

(** val mul_mont_coef : z -> z -> z res **)

let mul_mont_coef a u =
  bind (mul64 a u) mont_reduce

(** val acc_coef : z -> z -> z -> z res **)

let acc_coef acc a u =
  bind (mul_mont_coef a u) (fun m -> add32 acc m)

(** val map3M :
    ('a1 -> 'a2 -> 'a3 -> 'a4 res) -> 'a1 list -> 'a2 list -> 'a3 list -> 'a4
    list res **)

let rec map3M f l1 l2 l3 =
  match l1 with
  | [] -> Ok []
  | a :: r1 ->
    (match l2 with
     | [] -> Ok []
     | b :: r2 ->
       (match l3 with
        | [] -> Ok []
        | c :: r3 ->
          bind (f a b c) (fun d0 ->
            bind (map3M f r1 r2 r3) (fun ds -> Ok (d0 :: ds)))))

(** val row_acc : z list -> z list list -> z list list -> z list res **)

let rec row_acc acc row u =
  match row with
  | [] -> Ok acc
  | a :: row' ->
    (match u with
     | [] -> Ok acc
     | uj :: u' ->
       bind (map3M acc_coef acc a uj) (fun acc' -> row_acc acc' row' u'))

(** val mat_vec_mul : z list list list -> z list list -> z list list res **)

let mat_vec_mul a_hat u_hat =
  bind (to_mont u_hat) (fun um ->
    mapM (fun row ->
      row_acc
        (zeros (S (S (S (S (S (S (S (S (S (S (S (S (S (S (S (S (S (S (S (S (S
          (S (S (S (S (S (S (S (S (S (S (S (S (S (S (S (S (S (S (S (S (S (S
          (S (S (S (S (S (S (S (S (S (S (S (S (S (S (S (S (S (S (S (S (S (S
          (S (S (S (S (S (S (S (S (S (S (S (S (S (S (S (S (S (S (S (S (S (S
          (S (S (S (S (S (S (S (S (S (S (S (S (S (S (S (S (S (S (S (S (S (S
          (S (S (S (S (S (S (S (S (S (S (S (S (S (S (S (S (S (S (S (S (S (S
          (S (S (S (S (S (S (S (S (S (S (S (S (S (S (S (S (S (S (S (S (S (S
          (S (S (S (S (S (S (S (S (S (S (S (S (S (S (S (S (S (S (S (S (S (S
          (S (S (S (S (S (S (S (S (S (S (S (S (S (S (S (S (S (S (S (S (S (S
          (S (S (S (S (S (S (S (S (S (S (S (S (S (S (S (S (S (S (S (S (S (S
          (S (S (S (S (S (S (S (S (S (S (S (S (S (S (S (S (S (S (S (S (S (S
          (S (S (S (S (S (S (S (S (S (S (S (S (S (S (S
          O)))))))))))))))))))))))))))))))))))))))))))))))))))))))))))))))))))))))))))))))))))))))))))))))))))))))))))))))))))))))))))))))))))))))))))))))))))))))))))))))))))))))))))))))))))))))))))))))))))))))))))))))))))))))))))))))))))))))))))))))))))))))))))))))))
        row um) a_hat)

(** val abs_center : z -> z res **)

let abs_center e =
  bind (center_mod e) abs32

(** val infinity_norm : z list list -> z res **)

let infinity_norm w =
  bind (mapM abs_center (concat w)) (fun l ->
    match l with
    | [] ->
      Panic (String ((Ascii (true, false, false, true, false, true, true,
        false)), (String ((Ascii (false, true, true, true, false, true, true,
        false)), (String ((Ascii (false, true, true, false, false, true,
        true, false)), (String ((Ascii (true, false, false, true, false,
        true, true, false)), (String ((Ascii (false, true, true, true, false,
        true, true, false)), (String ((Ascii (true, false, false, true,
        false, true, true, false)), (String ((Ascii (false, false, true,
        false, true, true, true, false)), (String ((Ascii (true, false,
        false, true, true, true, true, false)), (String ((Ascii (false,
        false, false, false, false, true, false, false)), (String ((Ascii
        (false, true, true, true, false, true, true, false)), (String ((Ascii
        (true, true, true, true, false, true, true, false)), (String ((Ascii
        (false, true, false, false, true, true, true, false)), (String
        ((Ascii (true, false, true, true, false, true, true, false)), (String
        ((Ascii (false, false, false, false, false, true, false, false)),
        (String ((Ascii (false, true, true, false, false, true, true,
        false)), (String ((Ascii (true, false, false, false, false, true,
        true, false)), (String ((Ascii (true, false, false, true, false,
        true, true, false)), (String ((Ascii (false, false, true, true,
        false, true, true, false)), (String ((Ascii (true, true, false,
        false, true, true, true, false)),
        EmptyString))))))))))))))))))))))))))))))))))))))
    | x :: r -> Ok (fold_left Z.max r x))

(** val brv_aux : nat -> z -> z -> z **)

let rec brv_aux n0 x acc =
  match n0 with
  | O -> acc
  | S n' ->
    brv_aux n' (Z.div x (Zpos (XO XH)))
      (Z.add (Z.mul (Zpos (XO XH)) acc) (Z.modulo x (Zpos (XO XH))))

(** val brv8 : z -> z **)

let brv8 i =
  brv_aux (S (S (S (S (S (S (S (S O)))))))) i Z0

(** val zeta_powers : nat -> z -> z list **)

let rec zeta_powers n0 x =
  match n0 with
  | O -> []
  | S n' ->
    (Z.modulo
      (Z.mul x (Z.pow (Zpos (XO XH)) (Zpos (XO (XO (XO (XO (XO XH)))))))) q) :: 
      (zeta_powers n' (Z.modulo (Z.mul x zETA) q))

(** val zETA_TABLE_MONT : z list **)

let zETA_TABLE_MONT =
  let pw =
    zeta_powers (S (S (S (S (S (S (S (S (S (S (S (S (S (S (S (S (S (S (S (S
      (S (S (S (S (S (S (S (S (S (S (S (S (S (S (S (S (S (S (S (S (S (S (S (S
      (S (S (S (S (S (S (S (S (S (S (S (S (S (S (S (S (S (S (S (S (S (S (S (S
      (S (S (S (S (S (S (S (S (S (S (S (S (S (S (S (S (S (S (S (S (S (S (S (S
      (S (S (S (S (S (S (S (S (S (S (S (S (S (S (S (S (S (S (S (S (S (S (S (S
      (S (S (S (S (S (S (S (S (S (S (S (S (S (S (S (S (S (S (S (S (S (S (S (S
      (S (S (S (S (S (S (S (S (S (S (S (S (S (S (S (S (S (S (S (S (S (S (S (S
      (S (S (S (S (S (S (S (S (S (S (S (S (S (S (S (S (S (S (S (S (S (S (S (S
      (S (S (S (S (S (S (S (S (S (S (S (S (S (S (S (S (S (S (S (S (S (S (S (S
      (S (S (S (S (S (S (S (S (S (S (S (S (S (S (S (S (S (S (S (S (S (S (S (S
      (S (S (S (S (S (S (S (S (S (S (S (S (S (S (S (S (S (S (S (S
      O))))))))))))))))))))))))))))))))))))))))))))))))))))))))))))))))))))))))))))))))))))))))))))))))))))))))))))))))))))))))))))))))))))))))))))))))))))))))))))))))))))))))))))))))))))))))))))))))))))))))))))))))))))))))))))))))))))))))))))))))))))))))))))))))
      (Zpos XH)
  in
  map (fun m -> nth (Z.to_nat (brv8 (Z.of_nat m))) pw Z0)
    (seq O (S (S (S (S (S (S (S (S (S (S (S (S (S (S (S (S (S (S (S (S (S (S
      (S (S (S (S (S (S (S (S (S (S (S (S (S (S (S (S (S (S (S (S (S (S (S (S
      (S (S (S (S (S (S (S (S (S (S (S (S (S (S (S (S (S (S (S (S (S (S (S (S
      (S (S (S (S (S (S (S (S (S (S (S (S (S (S (S (S (S (S (S (S (S (S (S (S
      (S (S (S (S (S (S (S (S (S (S (S (S (S (S (S (S (S (S (S (S (S (S (S (S
      (S (S (S (S (S (S (S (S (S (S (S (S (S (S (S (S (S (S (S (S (S (S (S (S
      (S (S (S (S (S (S (S (S (S (S (S (S (S (S (S (S (S (S (S (S (S (S (S (S
      (S (S (S (S (S (S (S (S (S (S (S (S (S (S (S (S (S (S (S (S (S (S (S (S
      (S (S (S (S (S (S (S (S (S (S (S (S (S (S (S (S (S (S (S (S (S (S (S (S
      (S (S (S (S (S (S (S (S (S (S (S (S (S (S (S (S (S (S (S (S (S (S (S (S
      (S (S (S (S (S (S (S (S (S (S (S (S (S (S (S (S (S (S
      O)))))))))))))))))))))))))))))))))))))))))))))))))))))))))))))))))))))))))))))))))))))))))))))))))))))))))))))))))))))))))))))))))))))))))))))))))))))))))))))))))))))))))))))))))))))))))))))))))))))))))))))))))))))))))))))))))))))))))))))))))))))))))))))))))

(** val zeta_mont : z -> z **)

let zeta_mont m =
  nth (Z.to_nat m) zETA_TABLE_MONT Z0

(** val fwd_t : z -> z -> z res **)

let fwd_t zeta hi =
  bind (mul64 zeta hi) mont_reduce

(** val ntt_rec : nat -> z -> z list -> z list res **)

let rec ntt_rec depth m w =
  match depth with
  | O -> Ok w
  | S dp ->
    let n0 = Nat.pow (S (S O)) dp in
    let lo = firstn n0 w in
    let hi = skipn n0 w in
    bind (mapM (fwd_t (zeta_mont m)) hi) (fun ts ->
      bind (map2M add32 lo ts) (fun lo' ->
        bind (map2M sub32 lo ts) (fun hi' ->
          bind (ntt_rec dp (Z.mul (Zpos (XO XH)) m) lo') (fun a ->
            bind (ntt_rec dp (Z.add (Z.mul (Zpos (XO XH)) m) (Zpos XH)) hi')
              (fun b -> Ok (app a b))))))

(** val ntt_poly : z list -> z list res **)

let ntt_poly w =
  ntt_rec (S (S (S (S (S (S (S (S O)))))))) (Zpos XH) w

(** val ntt : z list list -> z list list res **)

let ntt v =
  mapM ntt_poly v

(** val inv_hi : z -> z -> z -> z res **)

let inv_hi nz lo hi =
  bind (sub32 lo hi) (fun d0 -> bind (mul64 nz d0) mont_reduce)

(** val inv_rec : nat -> z -> z -> z list -> z list res **)

let rec inv_rec depth base m w =
  match depth with
  | O -> Ok w
  | S dp ->
    let n0 = Nat.pow (S (S O)) dp in
    bind
      (inv_rec dp (Z.mul (Zpos (XO XH)) base) (Z.mul (Zpos (XO XH)) m)
        (firstn n0 w)) (fun lo ->
      bind
        (inv_rec dp (Z.mul (Zpos (XO XH)) base)
          (Z.add (Z.mul (Zpos (XO XH)) m) (Zpos XH)) (skipn n0 w)) (fun hi ->
        bind
          (neg32
            (zeta_mont
              (Z.sub (Z.sub (Z.mul (Zpos (XI XH)) base) (Zpos XH)) m)))
          (fun nz ->
          bind (map2M add32 lo hi) (fun lo' ->
            bind (map2M (inv_hi nz) lo hi) (fun hi' -> Ok (app lo' hi'))))))

(** val inv_final : z -> z res **)

let inv_final x =
  bind (mul64 f_MONT x) (fun p -> bind (mont_reduce p) full_reduce32)

(** val inv_ntt_poly : z list -> z list res **)

let inv_ntt_poly w =
  bind (mapM partial_reduce32 w) (fun w0 ->
    bind (inv_rec (S (S (S (S (S (S (S (S O)))))))) (Zpos XH) (Zpos XH) w0)
      (fun w1 -> mapM inv_final w1))

(** val inv_ntt : z list list -> z list list res **)

let inv_ntt v =
  mapM inv_ntt_poly v

(** val p2r_hi : z -> z res **)

let p2r_hi r =
  bind (add32 r (Z.pow (Zpos (XO XH)) (Z.sub d (Zpos XH)))) (fun t ->
    bind (sub32 t (Zpos XH)) (fun t0 -> Ok (shr t0 d)))

(** val p2r_lo : z -> z -> z res **)

let p2r_lo r r1 =
  sub32 r (shl32 r1 d)

(** val p2r_check : z -> z -> z -> bool res **)

let p2r_check r r1 r0 =
  bind (add32 (shl32 r1 d) r0) (fun s -> Ok (Z.eqb r s))

(** val power2round : z list list -> (z list list * z list list) res **)

let power2round v =
  bind
    (guard (forallb (fun e -> (&&) (Z.leb Z0 e) (Z.ltb e q)) (concat v))
      (String ((Ascii (false, false, false, false, true, true, true, false)),
      (String ((Ascii (true, true, true, true, false, true, true, false)),
      (String ((Ascii (true, true, true, false, true, true, true, false)),
      (String ((Ascii (true, false, true, false, false, true, true, false)),
      (String ((Ascii (false, true, false, false, true, true, true, false)),
      (String ((Ascii (false, true, false, false, true, true, false, false)),
      (String ((Ascii (false, true, false, false, true, true, true, false)),
      (String ((Ascii (true, true, true, true, false, true, true, false)),
      (String ((Ascii (true, false, true, false, true, true, true, false)),
      (String ((Ascii (false, true, true, true, false, true, true, false)),
      (String ((Ascii (false, false, true, false, false, true, true, false)),
      (String ((Ascii (false, false, false, false, false, true, false,
      false)), (String ((Ascii (true, false, false, true, false, true, true,
      false)), (String ((Ascii (false, true, true, true, false, true, true,
      false)), (String ((Ascii (false, false, false, false, true, true, true,
      false)), (String ((Ascii (true, false, true, false, true, true, true,
      false)), (String ((Ascii (false, false, true, false, true, true, true,
      false)), EmptyString))))))))))))))))))))))))))))))))))) (fun _ ->
    bind (mapM (mapM p2r_hi) v) (fun r1 ->
      bind (map2M (map2M p2r_lo) v r1) (fun r0 ->
        bind (map3M (map3M p2r_check) v r1 r0) (fun chk ->
          bind
            (guard (forallb (fun b -> b) (concat chk)) (String ((Ascii (true,
              false, false, false, false, false, true, false)), (String
              ((Ascii (false, false, true, true, false, true, true, false)),
              (String ((Ascii (true, true, true, false, false, true, true,
              false)), (String ((Ascii (false, false, false, false, false,
              true, false, false)), (String ((Ascii (true, true, false,
              false, true, true, false, false)), (String ((Ascii (true,
              false, true, false, true, true, false, false)), (String ((Ascii
              (false, true, false, true, true, true, false, false)), (String
              ((Ascii (false, false, false, false, false, true, false,
              false)), (String ((Ascii (false, true, true, false, false,
              true, true, false)), (String ((Ascii (true, false, false,
              false, false, true, true, false)), (String ((Ascii (true,
              false, false, true, false, true, true, false)), (String ((Ascii
              (false, false, true, true, false, true, true, false)), (String
              ((Ascii (true, true, false, false, true, true, true, false)),
              EmptyString))))))))))))))))))))))))))) (fun _ -> Ok (r1, r0))))))

(** val is44 : z -> bool **)

let is44 gamma2 =
  Z.eqb
    (Z.coq_land gamma2 (Z.pow (Zpos (XO XH)) (Zpos (XI (XO (XO (XO XH)))))))
    Z0

(** val decompose : z -> z -> (z * z) res **)

let decompose gamma2 r =
  bind (full_reduce32 r) (fun rp ->
    bind
      (if is44 gamma2
       then bind (add32 rp (Zpos (XI (XI (XI (XI (XI (XI XH)))))))) (fun t ->
              let x = shr t (Zpos (XI (XI XH))) in
              bind
                (mul32 x (Zpos (XI (XI (XO (XI (XO (XO (XO (XO (XO (XO (XI
                  (XI (XO XH))))))))))))))) (fun t0 ->
                bind
                  (add32 t0
                    (Z.pow (Zpos (XO XH)) (Zpos (XI (XI (XI (XO XH)))))))
                  (fun t1 ->
                  let x0 = shr t1 (Zpos (XO (XO (XO (XI XH))))) in
                  bind (sub32 (Zpos (XI (XI (XO (XI (XO XH)))))) x0)
                    (fun t2 -> Ok
                    (Z.coq_lxor x0
                      (Z.coq_land (shr t2 (Zpos (XI (XI (XI (XI XH)))))) x0))))))
       else bind (add32 rp (Zpos (XI (XI (XI (XI (XI (XI XH)))))))) (fun t ->
              let x = shr t (Zpos (XI (XI XH))) in
              bind
                (mul32 x (Zpos (XI (XO (XO (XO (XO (XO (XO (XO (XO (XO
                  XH)))))))))))) (fun t0 ->
                bind
                  (add32 t0
                    (Z.pow (Zpos (XO XH)) (Zpos (XI (XO (XI (XO XH)))))))
                  (fun t1 ->
                  let x0 = shr t1 (Zpos (XO (XI (XI (XO XH))))) in
                  Ok (Z.coq_land x0 (Zpos (XI (XI (XI XH))))))))) (fun xr1 ->
      bind (mul32 xr1 (Zpos (XO XH))) (fun t ->
        bind (mul32 t gamma2) (fun t0 ->
          bind (sub32 rp t0) (fun xr0 ->
            bind (sub32 (Z.div (Z.sub q (Zpos XH)) (Zpos (XO XH))) xr0)
              (fun t1 ->
              bind
                (sub32 xr0
                  (Z.coq_land (shr t1 (Zpos (XI (XI (XI (XI XH)))))) q))
                (fun xr2 ->
                bind (mul32 xr1 (Zpos (XO XH))) (fun t2 ->
                  bind (mul32 t2 gamma2) (fun t3 ->
                    bind (add32 t3 xr2) (fun t4 ->
                      bind
                        (guard (Z.eqb (Z.modulo r q) (Z.modulo t4 q)) (String
                          ((Ascii (true, false, false, false, false, false,
                          true, false)), (String ((Ascii (false, false, true,
                          true, false, true, true, false)), (String ((Ascii
                          (true, true, true, false, false, true, true,
                          false)), (String ((Ascii (false, false, false,
                          false, false, true, false, false)), (String ((Ascii
                          (true, true, false, false, true, true, false,
                          false)), (String ((Ascii (false, true, true, false,
                          true, true, false, false)), (String ((Ascii (false,
                          true, false, true, true, true, false, false)),
                          (String ((Ascii (false, false, false, false, false,
                          true, false, false)), (String ((Ascii (false, true,
                          true, false, false, true, true, false)), (String
                          ((Ascii (true, false, false, false, false, true,
                          true, false)), (String ((Ascii (true, false, false,
                          true, false, true, true, false)), (String ((Ascii
                          (false, false, true, true, false, true, true,
                          false)), (String ((Ascii (true, true, false, false,
                          true, true, true, false)),
                          EmptyString))))))))))))))))))))))))))) (fun _ -> Ok
                        (xr1, xr2))))))))))))

(** val high_bits : z -> z -> z res **)

let high_bits gamma2 r =
  bind (decompose gamma2 r) (fun x -> let (r1, _) = x in Ok r1)

(** val low_bits : z -> z -> z res **)

let low_bits gamma2 r =
  bind (decompose gamma2 r) (fun x -> let (_, r0) = x in Ok r0)

(** val make_hint : z -> z -> z -> bool res **)

let make_hint gamma2 z0 r =
  bind (high_bits gamma2 r) (fun r1 ->
    bind (add32 r z0) (fun s ->
      bind (high_bits gamma2 s) (fun v1 -> Ok (negb (Z.eqb r1 v1)))))

(** val use_hint : z -> z -> z -> z res **)

let use_hint gamma2 h r =
  bind (decompose gamma2 r) (fun x ->
    let (r1, r0) = x in
    if Z.eqb h Z0
    then Ok r1
    else if is44 gamma2
         then if Z.ltb Z0 r0
              then if Z.eqb r1 (Zpos (XI (XI (XO (XI (XO XH))))))
                   then Ok Z0
                   else add32 r1 (Zpos XH)
              else if Z.eqb r1 Z0
                   then Ok (Zpos (XI (XI (XO (XI (XO XH))))))
                   else sub32 r1 (Zpos XH)
         else if Z.ltb Z0 r0
              then bind (add32 r1 (Zpos XH)) (fun t -> Ok
                     (Z.coq_land t (Zpos (XI (XI (XI XH))))))
              else bind (sub32 r1 (Zpos XH)) (fun t -> Ok
                     (Z.coq_land t (Zpos (XI (XI (XI XH)))))))

(** val coeff_from_three_bytes : bool -> z -> z -> z -> z res **)

let coeff_from_three_bytes ctest b0 b1 b2 =
  let b2p = Z.coq_land b2 (Zpos (XI (XI (XI (XI (XI (XI XH))))))) in
  let b2p0 =
    if ctest then Z.coq_land b2p (Zpos (XI (XI (XI (XI (XI XH)))))) else b2p
  in
  let z0 =
    Z.coq_lor
      (Z.coq_lor (Z.shiftl b2p0 (Zpos (XO (XO (XO (XO XH))))))
        (Z.shiftl b1 (Zpos (XO (XO (XO XH)))))) b0
  in
  if Z.ltb z0 q then Ok z0 else Err Reject

(** val m5 : z **)

let m5 =
  Z.add
    (Z.div (Z.pow (Zpos (XO XH)) (Zpos (XO (XO (XO (XI XH)))))) (Zpos (XI (XO
      XH)))) (Zpos XH)

(** val coeff_from_half_byte : bool -> z -> z -> z res **)

let coeff_from_half_byte ctest eta b =
  bind
    (guard ((||) (Z.eqb eta (Zpos (XO XH))) (Z.eqb eta (Zpos (XO (XO XH)))))
      (String ((Ascii (true, false, false, false, false, false, true,
      false)), (String ((Ascii (false, false, true, true, false, true, true,
      false)), (String ((Ascii (true, true, true, false, false, true, true,
      false)), (String ((Ascii (false, false, false, false, false, true,
      false, false)), (String ((Ascii (true, false, false, false, true, true,
      false, false)), (String ((Ascii (true, false, true, false, true, true,
      false, false)), (String ((Ascii (false, true, false, true, true, true,
      false, false)), (String ((Ascii (false, false, false, false, false,
      true, false, false)), (String ((Ascii (true, false, false, true, false,
      true, true, false)), (String ((Ascii (false, true, true, true, false,
      true, true, false)), (String ((Ascii (true, true, false, false, false,
      true, true, false)), (String ((Ascii (true, true, true, true, false,
      true, true, false)), (String ((Ascii (false, true, false, false, true,
      true, true, false)), (String ((Ascii (false, true, false, false, true,
      true, true, false)), (String ((Ascii (true, false, true, false, false,
      true, true, false)), (String ((Ascii (true, true, false, false, false,
      true, true, false)), (String ((Ascii (false, false, true, false, true,
      true, true, false)), (String ((Ascii (false, false, false, false,
      false, true, false, false)), (String ((Ascii (true, false, true, false,
      false, true, true, false)), (String ((Ascii (false, false, true, false,
      true, true, true, false)), (String ((Ascii (true, false, false, false,
      false, true, true, false)),
      EmptyString))))))))))))))))))))))))))))))))))))))))))) (fun _ ->
    bind
      (guard (Z.ltb b (Zpos (XO (XO (XO (XO XH)))))) (String ((Ascii (true,
        false, false, false, false, false, true, false)), (String ((Ascii
        (false, false, true, true, false, true, true, false)), (String
        ((Ascii (true, true, true, false, false, true, true, false)), (String
        ((Ascii (false, false, false, false, false, true, false, false)),
        (String ((Ascii (true, false, false, false, true, true, false,
        false)), (String ((Ascii (true, false, true, false, true, true,
        false, false)), (String ((Ascii (false, true, false, true, true,
        true, false, false)), (String ((Ascii (false, false, false, false,
        false, true, false, false)), (String ((Ascii (false, true, false,
        false, false, true, true, false)), (String ((Ascii (false, false,
        false, false, false, true, false, false)), (String ((Ascii (true,
        true, true, true, false, true, true, false)), (String ((Ascii (true,
        false, true, false, true, true, true, false)), (String ((Ascii
        (false, false, true, false, true, true, true, false)), (String
        ((Ascii (false, false, false, false, false, true, false, false)),
        (String ((Ascii (true, true, true, true, false, true, true, false)),
        (String ((Ascii (false, true, true, false, false, true, true,
        false)), (String ((Ascii (false, false, false, false, false, true,
        false, false)), (String ((Ascii (false, true, false, false, true,
        true, true, false)), (String ((Ascii (true, false, false, false,
        false, true, true, false)), (String ((Ascii (false, true, true, true,
        false, true, true, false)), (String ((Ascii (true, true, true, false,
        false, true, true, false)), (String ((Ascii (true, false, true,
        false, false, true, true, false)),
        EmptyString))))))))))))))))))))))))))))))))))))))))))))) (fun _ ->
      let b0 = if ctest then Z.coq_land b (Zpos (XI (XI XH))) else b in
      if (&&) (Z.eqb eta (Zpos (XO XH))) (Z.ltb b0 (Zpos (XI (XI (XI XH)))))
      then bind (mul32 b0 m5) (fun t ->
             let quot = shr t (Zpos (XO (XO (XO (XI XH))))) in
             bind (mul32 quot (Zpos (XI (XO XH)))) (fun t0 ->
               bind (sub32 b0 t0) (fun rem -> sub32 (Zpos (XO XH)) rem)))
      else if (&&) (Z.eqb eta (Zpos (XO (XO XH))))
                (Z.ltb b0 (Zpos (XI (XO (XO XH)))))
           then sub32 (Zpos (XO (XO XH))) b0
           else Err Reject))

(** val wrapu32 : z -> z **)

let wrapu32 z0 =
  Z.modulo z0 (Zpos (XO (XO (XO (XO (XO (XO (XO (XO (XO (XO (XO (XO (XO (XO
    (XO (XO (XO (XO (XO (XO (XO (XO (XO (XO (XO (XO (XO (XO (XO (XO (XO (XO
    XH)))))))))))))))))))))))))))))))))

(** val bp_flush : nat -> z -> z -> z list -> (z * z) * z list **)

let rec bp_flush fuel temp bit_index out =
  match fuel with
  | O -> ((temp, bit_index), out)
  | S f ->
    if Z.ltb (Zpos (XI (XI XH))) bit_index
    then bp_flush f (shr temp (Zpos (XO (XO (XO XH)))))
           (Z.sub bit_index (Zpos (XO (XO (XO XH)))))
           ((Z.modulo temp (Zpos (XO (XO (XO (XO (XO (XO (XO (XO XH)))))))))) :: out)
    else ((temp, bit_index), out)

(** val bp_step :
    z -> z -> z -> ((z * z) * z list) -> z -> (z * z) * z list **)

let bp_step a b bitlen0 st coeff =
  let (p, out) = st in
  let (temp, bit_index) = p in
  let v = if Z.ltb Z0 a then Z.abs (Z.sub b coeff) else Z.abs coeff in
  let temp0 =
    Z.coq_lor temp (wrapu32 (Z.mul v (Z.pow (Zpos (XO XH)) bit_index)))
  in
  bp_flush (S (S (S (S O)))) temp0 (Z.add bit_index bitlen0) out

(** val bit_pack_raw : z list -> z -> z -> z list **)

let bit_pack_raw w a b =
  let (_, out) = fold_left (bp_step a b (bitlen (Z.add a b))) w ((Z0, Z0), [])
  in
  rev out

(** val bit_pack : z list -> z -> z -> z -> z list res **)

let bit_pack w a b outlen =
  bind
    (guard
      ((&&) (Z.leb Z0 a)
        (Z.ltb a (Zpos (XO (XO (XO (XO (XO (XO (XO (XO (XO (XO (XO (XO (XO
          (XO (XO (XO (XO (XO (XO (XO XH))))))))))))))))))))))) (String
      ((Ascii (true, false, false, false, false, false, true, false)),
      (String ((Ascii (false, false, true, true, false, true, true, false)),
      (String ((Ascii (true, true, true, false, false, true, true, false)),
      (String ((Ascii (false, false, false, false, false, true, false,
      false)), (String ((Ascii (true, false, false, false, true, true, false,
      false)), (String ((Ascii (true, true, true, false, true, true, false,
      false)), (String ((Ascii (false, true, false, true, true, true, false,
      false)), (String ((Ascii (false, false, false, false, false, true,
      false, false)), (String ((Ascii (true, false, false, false, false,
      true, true, false)), (String ((Ascii (false, false, false, false,
      false, true, false, false)), (String ((Ascii (true, true, true, true,
      false, true, true, false)), (String ((Ascii (true, false, true, false,
      true, true, true, false)), (String ((Ascii (false, false, true, false,
      true, true, true, false)), (String ((Ascii (false, false, false, false,
      false, true, false, false)), (String ((Ascii (true, true, true, true,
      false, true, true, false)), (String ((Ascii (false, true, true, false,
      false, true, true, false)), (String ((Ascii (false, false, false,
      false, false, true, false, false)), (String ((Ascii (false, true,
      false, false, true, true, true, false)), (String ((Ascii (true, false,
      false, false, false, true, true, false)), (String ((Ascii (false, true,
      true, true, false, true, true, false)), (String ((Ascii (true, true,
      true, false, false, true, true, false)), (String ((Ascii (true, false,
      true, false, false, true, true, false)),
      EmptyString))))))))))))))))))))))))))))))))))))))))))))) (fun _ ->
    bind
      (guard
        ((&&) (Z.leb (Zpos XH) b)
          (Z.ltb b (Zpos (XO (XO (XO (XO (XO (XO (XO (XO (XO (XO (XO (XO (XO
            (XO (XO (XO (XO (XO (XO (XO XH))))))))))))))))))))))) (String
        ((Ascii (true, false, false, false, false, false, true, false)),
        (String ((Ascii (false, false, true, true, false, true, true,
        false)), (String ((Ascii (true, true, true, false, false, true, true,
        false)), (String ((Ascii (false, false, false, false, false, true,
        false, false)), (String ((Ascii (true, false, false, false, true,
        true, false, false)), (String ((Ascii (true, true, true, false, true,
        true, false, false)), (String ((Ascii (false, true, false, true,
        true, true, false, false)), (String ((Ascii (false, false, false,
        false, false, true, false, false)), (String ((Ascii (false, true,
        false, false, false, true, true, false)), (String ((Ascii (false,
        false, false, false, false, true, false, false)), (String ((Ascii
        (true, true, true, true, false, true, true, false)), (String ((Ascii
        (true, false, true, false, true, true, true, false)), (String ((Ascii
        (false, false, true, false, true, true, true, false)), (String
        ((Ascii (false, false, false, false, false, true, false, false)),
        (String ((Ascii (true, true, true, true, false, true, true, false)),
        (String ((Ascii (false, true, true, false, false, true, true,
        false)), (String ((Ascii (false, false, false, false, false, true,
        false, false)), (String ((Ascii (false, true, false, false, true,
        true, true, false)), (String ((Ascii (true, false, false, false,
        false, true, true, false)), (String ((Ascii (false, true, true, true,
        false, true, true, false)), (String ((Ascii (true, true, true, false,
        false, true, true, false)), (String ((Ascii (true, false, true,
        false, false, true, true, false)),
        EmptyString))))))))))))))))))))))))))))))))))))))))))))) (fun _ ->
      bind
        (guard (is_in_range w a b) (String ((Ascii (true, false, false,
          false, false, false, true, false)), (String ((Ascii (false, false,
          true, true, false, true, true, false)), (String ((Ascii (true,
          true, true, false, false, true, true, false)), (String ((Ascii
          (false, false, false, false, false, true, false, false)), (String
          ((Ascii (true, false, false, false, true, true, false, false)),
          (String ((Ascii (true, true, true, false, true, true, false,
          false)), (String ((Ascii (false, true, false, true, true, true,
          false, false)), (String ((Ascii (false, false, false, false, false,
          true, false, false)), (String ((Ascii (true, true, true, false,
          true, true, true, false)), (String ((Ascii (false, false, false,
          false, false, true, false, false)), (String ((Ascii (true, true,
          true, true, false, true, true, false)), (String ((Ascii (true,
          false, true, false, true, true, true, false)), (String ((Ascii
          (false, false, true, false, true, true, true, false)), (String
          ((Ascii (false, false, false, false, false, true, false, false)),
          (String ((Ascii (true, true, true, true, false, true, true,
          false)), (String ((Ascii (false, true, true, false, false, true,
          true, false)), (String ((Ascii (false, false, false, false, false,
          true, false, false)), (String ((Ascii (false, true, false, false,
          true, true, true, false)), (String ((Ascii (true, false, false,
          false, false, true, true, false)), (String ((Ascii (false, true,
          true, true, false, true, true, false)), (String ((Ascii (true,
          true, true, false, false, true, true, false)), (String ((Ascii
          (true, false, true, false, false, true, true, false)),
          EmptyString))))))))))))))))))))))))))))))))))))))))))))) (fun _ ->
        bind
          (guard
            (Z.eqb (Z.mul (zlen w) (bitlen (Z.add a b)))
              (Z.mul outlen (Zpos (XO (XO (XO XH)))))) (String ((Ascii (true,
            false, false, false, false, false, true, false)), (String ((Ascii
            (false, false, true, true, false, true, true, false)), (String
            ((Ascii (true, true, true, false, false, true, true, false)),
            (String ((Ascii (false, false, false, false, false, true, false,
            false)), (String ((Ascii (true, false, false, false, true, true,
            false, false)), (String ((Ascii (true, true, true, false, true,
            true, false, false)), (String ((Ascii (false, true, false, true,
            true, true, false, false)), (String ((Ascii (false, false, false,
            false, false, true, false, false)), (String ((Ascii (false, true,
            false, false, false, true, true, false)), (String ((Ascii (true,
            false, false, false, false, true, true, false)), (String ((Ascii
            (false, false, true, false, false, true, true, false)), (String
            ((Ascii (false, false, false, false, false, true, false, false)),
            (String ((Ascii (true, true, true, true, false, true, true,
            false)), (String ((Ascii (true, false, true, false, true, true,
            true, false)), (String ((Ascii (false, false, true, false, true,
            true, true, false)), (String ((Ascii (false, false, false, false,
            true, true, true, false)), (String ((Ascii (true, false, true,
            false, true, true, true, false)), (String ((Ascii (false, false,
            true, false, true, true, true, false)), (String ((Ascii (false,
            false, false, false, false, true, false, false)), (String ((Ascii
            (true, true, false, false, true, true, true, false)), (String
            ((Ascii (true, false, false, true, false, true, true, false)),
            (String ((Ascii (false, true, false, true, true, true, true,
            false)), (String ((Ascii (true, false, true, false, false, true,
            true, false)),
            EmptyString)))))))))))))))))))))))))))))))))))))))))))))))
          (fun _ -> Ok (bit_pack_raw w a b)))))

(** val simple_bit_pack : z list -> z -> z -> z list res **)

let simple_bit_pack w b outlen =
  bind
    (guard
      ((&&) (Z.leb (Zpos XH) b)
        (Z.ltb b (Zpos (XO (XO (XO (XO (XO (XO (XO (XO (XO (XO (XO (XO (XO
          (XO (XO (XO (XO (XO (XO (XO XH))))))))))))))))))))))) (String
      ((Ascii (true, false, false, false, false, false, true, false)),
      (String ((Ascii (false, false, true, true, false, true, true, false)),
      (String ((Ascii (true, true, true, false, false, true, true, false)),
      (String ((Ascii (false, false, false, false, false, true, false,
      false)), (String ((Ascii (true, false, false, false, true, true, false,
      false)), (String ((Ascii (false, true, true, false, true, true, false,
      false)), (String ((Ascii (false, true, false, true, true, true, false,
      false)), (String ((Ascii (false, false, false, false, false, true,
      false, false)), (String ((Ascii (false, true, false, false, false,
      true, true, false)), (String ((Ascii (false, false, false, false,
      false, true, false, false)), (String ((Ascii (true, true, true, true,
      false, true, true, false)), (String ((Ascii (true, false, true, false,
      true, true, true, false)), (String ((Ascii (false, false, true, false,
      true, true, true, false)), (String ((Ascii (false, false, false, false,
      false, true, false, false)), (String ((Ascii (true, true, true, true,
      false, true, true, false)), (String ((Ascii (false, true, true, false,
      false, true, true, false)), (String ((Ascii (false, false, false,
      false, false, true, false, false)), (String ((Ascii (false, true,
      false, false, true, true, true, false)), (String ((Ascii (true, false,
      false, false, false, true, true, false)), (String ((Ascii (false, true,
      true, true, false, true, true, false)), (String ((Ascii (true, true,
      true, false, false, true, true, false)), (String ((Ascii (true, false,
      true, false, false, true, true, false)),
      EmptyString))))))))))))))))))))))))))))))))))))))))))))) (fun _ ->
    bind
      (guard (is_in_range w Z0 b) (String ((Ascii (true, false, false, false,
        false, false, true, false)), (String ((Ascii (false, false, true,
        true, false, true, true, false)), (String ((Ascii (true, true, true,
        false, false, true, true, false)), (String ((Ascii (false, false,
        false, false, false, true, false, false)), (String ((Ascii (true,
        false, false, false, true, true, false, false)), (String ((Ascii
        (false, true, true, false, true, true, false, false)), (String
        ((Ascii (false, true, false, true, true, true, false, false)),
        (String ((Ascii (false, false, false, false, false, true, false,
        false)), (String ((Ascii (true, true, true, false, true, true, true,
        false)), (String ((Ascii (false, false, false, false, false, true,
        false, false)), (String ((Ascii (true, true, true, true, false, true,
        true, false)), (String ((Ascii (true, false, true, false, true, true,
        true, false)), (String ((Ascii (false, false, true, false, true,
        true, true, false)), (String ((Ascii (false, false, false, false,
        false, true, false, false)), (String ((Ascii (true, true, true, true,
        false, true, true, false)), (String ((Ascii (false, true, true,
        false, false, true, true, false)), (String ((Ascii (false, false,
        false, false, false, true, false, false)), (String ((Ascii (false,
        true, false, false, true, true, true, false)), (String ((Ascii (true,
        false, false, false, false, true, true, false)), (String ((Ascii
        (false, true, true, true, false, true, true, false)), (String ((Ascii
        (true, true, true, false, false, true, true, false)), (String ((Ascii
        (true, false, true, false, false, true, true, false)),
        EmptyString))))))))))))))))))))))))))))))))))))))))))))) (fun _ ->
      bind
        (guard
          (Z.eqb outlen (Z.mul (Zpos (XO (XO (XO (XO (XO XH)))))) (bitlen b)))
          (String ((Ascii (true, false, false, false, false, false, true,
          false)), (String ((Ascii (false, false, true, true, false, true,
          true, false)), (String ((Ascii (true, true, true, false, false,
          true, true, false)), (String ((Ascii (false, false, false, false,
          false, true, false, false)), (String ((Ascii (true, false, false,
          false, true, true, false, false)), (String ((Ascii (false, true,
          true, false, true, true, false, false)), (String ((Ascii (false,
          true, false, true, true, true, false, false)), (String ((Ascii
          (false, false, false, false, false, true, false, false)), (String
          ((Ascii (true, false, false, true, false, true, true, false)),
          (String ((Ascii (false, true, true, true, false, true, true,
          false)), (String ((Ascii (true, true, false, false, false, true,
          true, false)), (String ((Ascii (true, true, true, true, false,
          true, true, false)), (String ((Ascii (false, true, false, false,
          true, true, true, false)), (String ((Ascii (false, true, false,
          false, true, true, true, false)), (String ((Ascii (true, false,
          true, false, false, true, true, false)), (String ((Ascii (true,
          true, false, false, false, true, true, false)), (String ((Ascii
          (false, false, true, false, true, true, true, false)), (String
          ((Ascii (false, false, false, false, false, true, false, false)),
          (String ((Ascii (true, true, false, false, true, true, true,
          false)), (String ((Ascii (true, false, false, true, false, true,
          true, false)), (String ((Ascii (false, true, false, true, true,
          true, true, false)), (String ((Ascii (true, false, true, false,
          false, true, true, false)), (String ((Ascii (false, false, false,
          false, false, true, false, false)), (String ((Ascii (true, true,
          true, true, false, true, true, false)), (String ((Ascii (false,
          true, true, false, false, true, true, false)), (String ((Ascii
          (false, false, false, false, false, true, false, false)), (String
          ((Ascii (true, true, true, true, false, true, true, false)),
          (String ((Ascii (true, false, true, false, true, true, true,
          false)), (String ((Ascii (false, false, true, false, true, true,
          true, false)), (String ((Ascii (false, false, false, false, true,
          true, true, false)), (String ((Ascii (true, false, true, false,
          true, true, true, false)), (String ((Ascii (false, false, true,
          false, true, true, true, false)), (String ((Ascii (false, false,
          false, false, false, true, false, false)), (String ((Ascii (false,
          true, false, false, false, true, true, false)), (String ((Ascii
          (true, false, false, true, true, true, true, false)), (String
          ((Ascii (false, false, true, false, true, true, true, false)),
          (String ((Ascii (true, false, true, false, false, true, true,
          false)), (String ((Ascii (true, true, false, false, true, true,
          true, false)),
          EmptyString)))))))))))))))))))))))))))))))))))))))))))))))))))))))))))))))))))))))))))))
        (fun _ -> bit_pack w Z0 b outlen)))

(** val bu_drain :
    nat -> z -> z -> z -> z -> z -> z list -> (z * z) * z list **)

let rec bu_drain fuel a b bitlen0 temp bit_index out =
  match fuel with
  | O -> ((temp, bit_index), out)
  | S f ->
    if Z.leb bitlen0 bit_index
    then let tmask =
           Z.coq_land temp (Z.sub (Z.pow (Zpos (XO XH)) bitlen0) (Zpos XH))
         in
         let c = if Z.eqb a Z0 then tmask else Z.sub b tmask in
         bu_drain f a b bitlen0 (shr temp bitlen0) (Z.sub bit_index bitlen0)
           (c :: out)
    else ((temp, bit_index), out)

(** val bu_step :
    z -> z -> z -> ((z * z) * z list) -> z -> (z * z) * z list **)

let bu_step a b bitlen0 st byte =
  let (p, out) = st in
  let (temp, bit_index) = p in
  let temp0 = Z.coq_lor temp (shl32 byte bit_index) in
  bu_drain (S (S (S (S (S (S (S (S O)))))))) a b bitlen0 temp0
    (Z.add bit_index (Zpos (XO (XO (XO XH))))) out

(** val bit_unpack_raw : z list -> z -> z -> z list **)

let bit_unpack_raw v a b =
  let (_, out) = fold_left (bu_step a b (bitlen (Z.add a b))) v ((Z0, Z0), [])
  in
  rev out

(** val bit_unpack : z list -> z -> z -> z list res **)

let bit_unpack v a b =
  bind
    (guard
      ((&&) (Z.leb Z0 a)
        (Z.ltb a (Zpos (XO (XO (XO (XO (XO (XO (XO (XO (XO (XO (XO (XO (XO
          (XO (XO (XO (XO (XO (XO (XO XH))))))))))))))))))))))) (String
      ((Ascii (true, false, false, false, false, false, true, false)),
      (String ((Ascii (false, false, true, true, false, true, true, false)),
      (String ((Ascii (true, true, true, false, false, true, true, false)),
      (String ((Ascii (false, false, false, false, false, true, false,
      false)), (String ((Ascii (true, false, false, false, true, true, false,
      false)), (String ((Ascii (true, false, false, true, true, true, false,
      false)), (String ((Ascii (false, true, false, true, true, true, false,
      false)), (String ((Ascii (false, false, false, false, false, true,
      false, false)), (String ((Ascii (true, false, false, false, false,
      true, true, false)), (String ((Ascii (false, false, false, false,
      false, true, false, false)), (String ((Ascii (true, true, true, true,
      false, true, true, false)), (String ((Ascii (true, false, true, false,
      true, true, true, false)), (String ((Ascii (false, false, true, false,
      true, true, true, false)), (String ((Ascii (false, false, false, false,
      false, true, false, false)), (String ((Ascii (true, true, true, true,
      false, true, true, false)), (String ((Ascii (false, true, true, false,
      false, true, true, false)), (String ((Ascii (false, false, false,
      false, false, true, false, false)), (String ((Ascii (false, true,
      false, false, true, true, true, false)), (String ((Ascii (true, false,
      false, false, false, true, true, false)), (String ((Ascii (false, true,
      true, true, false, true, true, false)), (String ((Ascii (true, true,
      true, false, false, true, true, false)), (String ((Ascii (true, false,
      true, false, false, true, true, false)),
      EmptyString))))))))))))))))))))))))))))))))))))))))))))) (fun _ ->
    bind
      (guard
        ((&&) (Z.leb (Zpos XH) b)
          (Z.ltb b (Zpos (XO (XO (XO (XO (XO (XO (XO (XO (XO (XO (XO (XO (XO
            (XO (XO (XO (XO (XO (XO (XO XH))))))))))))))))))))))) (String
        ((Ascii (true, false, false, false, false, false, true, false)),
        (String ((Ascii (false, false, true, true, false, true, true,
        false)), (String ((Ascii (true, true, true, false, false, true, true,
        false)), (String ((Ascii (false, false, false, false, false, true,
        false, false)), (String ((Ascii (true, false, false, false, true,
        true, false, false)), (String ((Ascii (true, false, false, true,
        true, true, false, false)), (String ((Ascii (false, true, false,
        true, true, true, false, false)), (String ((Ascii (false, false,
        false, false, false, true, false, false)), (String ((Ascii (false,
        true, false, false, false, true, true, false)), (String ((Ascii
        (false, false, false, false, false, true, false, false)), (String
        ((Ascii (true, true, true, true, false, true, true, false)), (String
        ((Ascii (true, false, true, false, true, true, true, false)), (String
        ((Ascii (false, false, true, false, true, true, true, false)),
        (String ((Ascii (false, false, false, false, false, true, false,
        false)), (String ((Ascii (true, true, true, true, false, true, true,
        false)), (String ((Ascii (false, true, true, false, false, true,
        true, false)), (String ((Ascii (false, false, false, false, false,
        true, false, false)), (String ((Ascii (false, true, false, false,
        true, true, true, false)), (String ((Ascii (true, false, false,
        false, false, true, true, false)), (String ((Ascii (false, true,
        true, true, false, true, true, false)), (String ((Ascii (true, true,
        true, false, false, true, true, false)), (String ((Ascii (true,
        false, true, false, false, true, true, false)),
        EmptyString))))))))))))))))))))))))))))))))))))))))))))) (fun _ ->
      bind
        (guard
          (Z.eqb (zlen v)
            (Z.mul (Zpos (XO (XO (XO (XO (XO XH)))))) (bitlen (Z.add a b))))
          (String ((Ascii (true, false, false, false, false, false, true,
          false)), (String ((Ascii (false, false, true, true, false, true,
          true, false)), (String ((Ascii (true, true, true, false, false,
          true, true, false)), (String ((Ascii (false, false, false, false,
          false, true, false, false)), (String ((Ascii (true, false, false,
          false, true, true, false, false)), (String ((Ascii (true, false,
          false, true, true, true, false, false)), (String ((Ascii (false,
          true, false, true, true, true, false, false)), (String ((Ascii
          (false, false, false, false, false, true, false, false)), (String
          ((Ascii (false, true, false, false, false, true, true, false)),
          (String ((Ascii (true, false, false, false, false, true, true,
          false)), (String ((Ascii (false, false, true, false, false, true,
          true, false)), (String ((Ascii (false, false, false, false, false,
          true, false, false)), (String ((Ascii (true, true, true, true,
          false, true, true, false)), (String ((Ascii (true, false, true,
          false, true, true, true, false)), (String ((Ascii (false, false,
          true, false, true, true, true, false)), (String ((Ascii (false,
          false, false, false, true, true, true, false)), (String ((Ascii
          (true, false, true, false, true, true, true, false)), (String
          ((Ascii (false, false, true, false, true, true, true, false)),
          (String ((Ascii (false, false, false, false, false, true, false,
          false)), (String ((Ascii (true, true, false, false, true, true,
          true, false)), (String ((Ascii (true, false, false, true, false,
          true, true, false)), (String ((Ascii (false, true, false, true,
          true, true, true, false)), (String ((Ascii (true, false, true,
          false, false, true, true, false)),
          EmptyString)))))))))))))))))))))))))))))))))))))))))))))))
        (fun _ ->
        let w = bit_unpack_raw v a b in
        bind (ensure (is_in_range w a b) Malformed) (fun _ -> Ok w))))

(** val simple_bit_unpack : z list -> z -> z list res **)

let simple_bit_unpack v b =
  bind
    (guard
      ((&&) (Z.leb (Zpos XH) b)
        (Z.ltb b (Zpos (XO (XO (XO (XO (XO (XO (XO (XO (XO (XO (XO (XO (XO
          (XO (XO (XO (XO (XO (XO (XO XH))))))))))))))))))))))) (String
      ((Ascii (true, false, false, false, false, false, true, false)),
      (String ((Ascii (false, false, true, true, false, true, true, false)),
      (String ((Ascii (true, true, true, false, false, true, true, false)),
      (String ((Ascii (false, false, false, false, false, true, false,
      false)), (String ((Ascii (true, false, false, false, true, true, false,
      false)), (String ((Ascii (false, false, false, true, true, true, false,
      false)), (String ((Ascii (false, true, false, true, true, true, false,
      false)), (String ((Ascii (false, false, false, false, false, true,
      false, false)), (String ((Ascii (false, true, false, false, false,
      true, true, false)), (String ((Ascii (false, false, false, false,
      false, true, false, false)), (String ((Ascii (true, true, true, true,
      false, true, true, false)), (String ((Ascii (true, false, true, false,
      true, true, true, false)), (String ((Ascii (false, false, true, false,
      true, true, true, false)), (String ((Ascii (false, false, false, false,
      false, true, false, false)), (String ((Ascii (true, true, true, true,
      false, true, true, false)), (String ((Ascii (false, true, true, false,
      false, true, true, false)), (String ((Ascii (false, false, false,
      false, false, true, false, false)), (String ((Ascii (false, true,
      false, false, true, true, true, false)), (String ((Ascii (true, false,
      false, false, false, true, true, false)), (String ((Ascii (false, true,
      true, true, false, true, true, false)), (String ((Ascii (true, true,
      true, false, false, true, true, false)), (String ((Ascii (true, false,
      true, false, false, true, true, false)),
      EmptyString))))))))))))))))))))))))))))))))))))))))))))) (fun _ ->
    bind
      (guard
        (Z.eqb (zlen v) (Z.mul (Zpos (XO (XO (XO (XO (XO XH)))))) (bitlen b)))
        (String ((Ascii (true, false, false, false, false, false, true,
        false)), (String ((Ascii (false, false, true, true, false, true,
        true, false)), (String ((Ascii (true, true, true, false, false, true,
        true, false)), (String ((Ascii (false, false, false, false, false,
        true, false, false)), (String ((Ascii (true, false, false, false,
        true, true, false, false)), (String ((Ascii (false, false, false,
        true, true, true, false, false)), (String ((Ascii (false, true,
        false, true, true, true, false, false)), (String ((Ascii (false,
        false, false, false, false, true, false, false)), (String ((Ascii
        (false, true, false, false, false, true, true, false)), (String
        ((Ascii (true, false, false, false, false, true, true, false)),
        (String ((Ascii (false, false, true, false, false, true, true,
        false)), (String ((Ascii (false, false, false, false, false, true,
        false, false)), (String ((Ascii (true, true, true, true, false, true,
        true, false)), (String ((Ascii (true, false, true, false, true, true,
        true, false)), (String ((Ascii (false, false, true, false, true,
        true, true, false)), (String ((Ascii (false, false, false, false,
        true, true, true, false)), (String ((Ascii (true, false, true, false,
        true, true, true, false)), (String ((Ascii (false, false, true,
        false, true, true, true, false)), (String ((Ascii (false, false,
        false, false, false, true, false, false)), (String ((Ascii (true,
        true, false, false, true, true, true, false)), (String ((Ascii (true,
        false, false, true, false, true, true, false)), (String ((Ascii
        (false, true, false, true, true, true, true, false)), (String ((Ascii
        (true, false, true, false, false, true, true, false)),
        EmptyString))))))))))))))))))))))))))))))))))))))))))))))) (fun _ ->
      bit_unpack v Z0 b))

(** val set_byte : z list -> z -> z -> z list res **)

let set_byte y i v =
  if (&&) (Z.leb Z0 i) (Z.ltb i (zlen y))
  then Ok (zupd y i v)
  else Panic (String ((Ascii (true, false, false, true, false, true, true,
         false)), (String ((Ascii (false, true, true, true, false, true,
         true, false)), (String ((Ascii (false, false, true, false, false,
         true, true, false)), (String ((Ascii (true, false, true, false,
         false, true, true, false)), (String ((Ascii (false, false, false,
         true, true, true, true, false)), (String ((Ascii (false, false,
         false, false, false, true, false, false)), (String ((Ascii (true,
         true, true, true, false, true, true, false)), (String ((Ascii (true,
         false, true, false, true, true, true, false)), (String ((Ascii
         (false, false, true, false, true, true, true, false)), (String
         ((Ascii (false, false, false, false, false, true, false, false)),
         (String ((Ascii (true, true, true, true, false, true, true, false)),
         (String ((Ascii (false, true, true, false, false, true, true,
         false)), (String ((Ascii (false, false, false, false, false, true,
         false, false)), (String ((Ascii (false, true, false, false, false,
         true, true, false)), (String ((Ascii (true, true, true, true, false,
         true, true, false)), (String ((Ascii (true, false, true, false,
         true, true, true, false)), (String ((Ascii (false, true, true, true,
         false, true, true, false)), (String ((Ascii (false, false, true,
         false, false, true, true, false)), (String ((Ascii (true, true,
         false, false, true, true, true, false)),
         EmptyString))))))))))))))))))))))))))))))))))))))

(** val hbp_coef : bool -> (z list * z) -> (z * z) -> (z list * z) res **)

let hbp_coef ctest st jh =
  let (y, index) = st in
  let (j, hj) = jh in
  if (&&) ctest (Z.ltb (Z.sub (zlen y) (Zpos XH)) index)
  then Ok (y, index)
  else if (||) ctest (negb (Z.eqb hj Z0))
       then bind
              (set_byte y index
                (Z.modulo j (Zpos (XO (XO (XO (XO (XO (XO (XO (XO XH)))))))))))
              (fun y' -> Ok (y', (Z.add index (Zpos XH))))
       else Ok (y, index)

(** val foldM : ('a1 -> 'a2 -> 'a1 res) -> 'a2 list -> 'a1 -> 'a1 res **)

let rec foldM f l a =
  match l with
  | [] -> Ok a
  | b :: r -> bind (f a b) (fun a' -> foldM f r a')

(** val hbp_poly :
    bool -> z -> ((z list * z) * z) -> z list -> ((z list * z) * z) res **)

let hbp_poly ctest omega st p =
  let (p0, i) = st in
  bind
    (foldM (hbp_coef ctest)
      (combine
        (map Z.of_nat
          (seq O (S (S (S (S (S (S (S (S (S (S (S (S (S (S (S (S (S (S (S (S
            (S (S (S (S (S (S (S (S (S (S (S (S (S (S (S (S (S (S (S (S (S (S
            (S (S (S (S (S (S (S (S (S (S (S (S (S (S (S (S (S (S (S (S (S (S
            (S (S (S (S (S (S (S (S (S (S (S (S (S (S (S (S (S (S (S (S (S (S
            (S (S (S (S (S (S (S (S (S (S (S (S (S (S (S (S (S (S (S (S (S (S
            (S (S (S (S (S (S (S (S (S (S (S (S (S (S (S (S (S (S (S (S (S (S
            (S (S (S (S (S (S (S (S (S (S (S (S (S (S (S (S (S (S (S (S (S (S
            (S (S (S (S (S (S (S (S (S (S (S (S (S (S (S (S (S (S (S (S (S (S
            (S (S (S (S (S (S (S (S (S (S (S (S (S (S (S (S (S (S (S (S (S (S
            (S (S (S (S (S (S (S (S (S (S (S (S (S (S (S (S (S (S (S (S (S (S
            (S (S (S (S (S (S (S (S (S (S (S (S (S (S (S (S (S (S (S (S (S (S
            (S (S (S (S (S (S (S (S (S (S (S (S (S (S (S (S
            O))))))))))))))))))))))))))))))))))))))))))))))))))))))))))))))))))))))))))))))))))))))))))))))))))))))))))))))))))))))))))))))))))))))))))))))))))))))))))))))))))))))))))))))))))))))))))))))))))))))))))))))))))))))))))))))))))))))))))))))))))))))))))))))))))
        p) p0) (fun x ->
    let (y1, index1) = x in
    bind
      (set_byte y1 (Z.add omega i)
        (Z.modulo index1 (Zpos (XO (XO (XO (XO (XO (XO (XO (XO XH)))))))))))
      (fun y2 -> Ok ((y2, index1), (Z.add i (Zpos XH)))))

(** val count_ones : z list -> z **)

let count_ones p =
  sumZ (filter (fun e -> Z.eqb e (Zpos XH)) p)

(** val hint_bit_pack : bool -> z -> z list list -> z -> z list res **)

let hint_bit_pack ctest omega h ylen =
  bind
    (guard (Z.leb Z0 omega) (String ((Ascii (true, false, false, false,
      false, false, true, false)), (String ((Ascii (false, false, true, true,
      false, true, true, false)), (String ((Ascii (true, true, true, false,
      false, true, true, false)), (String ((Ascii (false, false, false,
      false, false, true, false, false)), (String ((Ascii (false, true,
      false, false, true, true, false, false)), (String ((Ascii (false,
      false, false, false, true, true, false, false)), (String ((Ascii
      (false, true, false, true, true, true, false, false)), (String ((Ascii
      (false, false, false, false, false, true, false, false)), (String
      ((Ascii (false, false, true, false, true, true, true, false)), (String
      ((Ascii (false, true, false, false, true, true, true, false)), (String
      ((Ascii (true, false, false, true, true, true, true, false)), (String
      ((Ascii (true, true, true, true, true, false, true, false)), (String
      ((Ascii (false, true, true, false, false, true, true, false)), (String
      ((Ascii (false, true, false, false, true, true, true, false)), (String
      ((Ascii (true, true, true, true, false, true, true, false)), (String
      ((Ascii (true, false, true, true, false, true, true, false)), (String
      ((Ascii (false, false, false, false, false, true, false, false)),
      (String ((Ascii (false, true, true, false, false, true, true, false)),
      (String ((Ascii (true, false, false, false, false, true, true, false)),
      (String ((Ascii (true, false, false, true, false, true, true, false)),
      (String ((Ascii (false, false, true, true, false, true, true, false)),
      EmptyString))))))))))))))))))))))))))))))))))))))))))) (fun _ ->
    let k = zlen h in
    bind
      (guard
        ((&&) (Z.leb (Zpos XH) (Z.add omega k))
          (Z.ltb (Z.add omega k) (Zpos (XO (XO (XO (XO (XO (XO (XO (XO
            XH))))))))))) (String ((Ascii (true, false, false, false, false,
        false, true, false)), (String ((Ascii (false, false, true, true,
        false, true, true, false)), (String ((Ascii (true, true, true, false,
        false, true, true, false)), (String ((Ascii (false, false, false,
        false, false, true, false, false)), (String ((Ascii (false, true,
        false, false, true, true, false, false)), (String ((Ascii (false,
        false, false, false, true, true, false, false)), (String ((Ascii
        (false, true, false, true, true, true, false, false)), (String
        ((Ascii (false, false, false, false, false, true, false, false)),
        (String ((Ascii (true, true, true, true, false, true, true, false)),
        (String ((Ascii (true, false, true, true, false, true, true, false)),
        (String ((Ascii (true, false, true, false, false, true, true,
        false)), (String ((Ascii (true, true, true, false, false, true, true,
        false)), (String ((Ascii (true, false, false, false, false, true,
        true, false)), (String ((Ascii (true, true, false, true, false, true,
        false, false)), (String ((Ascii (true, true, false, true, false,
        false, true, false)), (String ((Ascii (false, false, false, false,
        false, true, false, false)), (String ((Ascii (true, true, true, true,
        false, true, true, false)), (String ((Ascii (true, false, true,
        false, true, true, true, false)), (String ((Ascii (false, false,
        true, false, true, true, true, false)), (String ((Ascii (false,
        false, false, false, false, true, false, false)), (String ((Ascii
        (true, true, true, true, false, true, true, false)), (String ((Ascii
        (false, true, true, false, false, true, true, false)), (String
        ((Ascii (false, false, false, false, false, true, false, false)),
        (String ((Ascii (false, true, false, false, true, true, true,
        false)), (String ((Ascii (true, false, false, false, false, true,
        true, false)), (String ((Ascii (false, true, true, true, false, true,
        true, false)), (String ((Ascii (true, true, true, false, false, true,
        true, false)), (String ((Ascii (true, false, true, false, false,
        true, true, false)),
        EmptyString)))))))))))))))))))))))))))))))))))))))))))))))))))))))))
      (fun _ ->
      bind
        (guard (Z.eqb ylen (Z.add omega k)) (String ((Ascii (true, false,
          false, false, false, false, true, false)), (String ((Ascii (false,
          false, true, true, false, true, true, false)), (String ((Ascii
          (true, true, true, false, false, true, true, false)), (String
          ((Ascii (false, false, false, false, false, true, false, false)),
          (String ((Ascii (false, true, false, false, true, true, false,
          false)), (String ((Ascii (false, false, false, false, true, true,
          false, false)), (String ((Ascii (false, true, false, true, true,
          true, false, false)), (String ((Ascii (false, false, false, false,
          false, true, false, false)), (String ((Ascii (false, true, false,
          false, false, true, true, false)), (String ((Ascii (true, false,
          false, false, false, true, true, false)), (String ((Ascii (false,
          false, true, false, false, true, true, false)), (String ((Ascii
          (false, false, false, false, false, true, false, false)), (String
          ((Ascii (true, true, true, true, false, true, true, false)),
          (String ((Ascii (true, false, true, false, true, true, true,
          false)), (String ((Ascii (false, false, true, false, true, true,
          true, false)), (String ((Ascii (false, false, false, false, true,
          true, true, false)), (String ((Ascii (true, false, true, false,
          true, true, true, false)), (String ((Ascii (false, false, true,
          false, true, true, true, false)), (String ((Ascii (false, false,
          false, false, false, true, false, false)), (String ((Ascii (true,
          true, false, false, true, true, true, false)), (String ((Ascii
          (true, false, false, true, false, true, true, false)), (String
          ((Ascii (false, true, false, true, true, true, true, false)),
          (String ((Ascii (true, false, true, false, false, true, true,
          false)), EmptyString)))))))))))))))))))))))))))))))))))))))))))))))
        (fun _ ->
        bind
          (guard (forallb (fun r -> is_in_range r Z0 (Zpos XH)) h) (String
            ((Ascii (true, false, false, false, false, false, true, false)),
            (String ((Ascii (false, false, true, true, false, true, true,
            false)), (String ((Ascii (true, true, true, false, false, true,
            true, false)), (String ((Ascii (false, false, false, false,
            false, true, false, false)), (String ((Ascii (false, true, false,
            false, true, true, false, false)), (String ((Ascii (false, false,
            false, false, true, true, false, false)), (String ((Ascii (false,
            true, false, true, true, true, false, false)), (String ((Ascii
            (false, false, false, false, false, true, false, false)), (String
            ((Ascii (false, false, false, true, false, true, true, false)),
            (String ((Ascii (false, false, false, false, false, true, false,
            false)), (String ((Ascii (false, true, true, true, false, true,
            true, false)), (String ((Ascii (true, true, true, true, false,
            true, true, false)), (String ((Ascii (false, false, true, false,
            true, true, true, false)), (String ((Ascii (false, false, false,
            false, false, true, false, false)), (String ((Ascii (false,
            false, false, false, true, true, false, false)), (String ((Ascii
            (true, true, true, true, false, true, false, false)), (String
            ((Ascii (true, false, false, false, true, true, false, false)),
            EmptyString))))))))))))))))))))))))))))))))))) (fun _ ->
          bind
            (guard (forallb (fun r -> Z.leb (count_ones r) omega) h) (String
              ((Ascii (true, false, false, false, false, false, true,
              false)), (String ((Ascii (false, false, true, true, false,
              true, true, false)), (String ((Ascii (true, true, true, false,
              false, true, true, false)), (String ((Ascii (false, false,
              false, false, false, true, false, false)), (String ((Ascii
              (false, true, false, false, true, true, false, false)), (String
              ((Ascii (false, false, false, false, true, true, false,
              false)), (String ((Ascii (false, true, false, true, true, true,
              false, false)), (String ((Ascii (false, false, false, false,
              false, true, false, false)), (String ((Ascii (false, false,
              true, false, true, true, true, false)), (String ((Ascii (true,
              true, true, true, false, true, true, false)), (String ((Ascii
              (true, true, true, true, false, true, true, false)), (String
              ((Ascii (false, false, false, false, false, true, false,
              false)), (String ((Ascii (true, false, true, true, false, true,
              true, false)), (String ((Ascii (true, false, false, false,
              false, true, true, false)), (String ((Ascii (false, true, true,
              true, false, true, true, false)), (String ((Ascii (true, false,
              false, true, true, true, true, false)), (String ((Ascii (false,
              false, false, false, false, true, false, false)), (String
              ((Ascii (true, false, false, false, true, true, false, false)),
              (String ((Ascii (true, true, true, false, false, true, false,
              false)), (String ((Ascii (true, true, false, false, true, true,
              true, false)), (String ((Ascii (false, false, false, false,
              false, true, false, false)), (String ((Ascii (true, false,
              false, true, false, true, true, false)), (String ((Ascii
              (false, true, true, true, false, true, true, false)), (String
              ((Ascii (false, false, false, false, false, true, false,
              false)), (String ((Ascii (false, false, false, true, false,
              true, true, false)),
              EmptyString)))))))))))))))))))))))))))))))))))))))))))))))))))
            (fun _ ->
            bind
              (foldM (hbp_poly ctest omega) h (((zeros (Z.to_nat ylen)), Z0),
                Z0)) (fun x -> let (p, _) = x in let (y, _) = p in Ok y))))))

(** val get_byte : z list -> z -> z res **)

let get_byte y i =
  if (&&) (Z.leb Z0 i) (Z.ltb i (zlen y))
  then Ok (znth y i)
  else Panic (String ((Ascii (true, false, false, true, false, true, true,
         false)), (String ((Ascii (false, true, true, true, false, true,
         true, false)), (String ((Ascii (false, false, true, false, false,
         true, true, false)), (String ((Ascii (true, false, true, false,
         false, true, true, false)), (String ((Ascii (false, false, false,
         true, true, true, true, false)), (String ((Ascii (false, false,
         false, false, false, true, false, false)), (String ((Ascii (true,
         true, true, true, false, true, true, false)), (String ((Ascii (true,
         false, true, false, true, true, true, false)), (String ((Ascii
         (false, false, true, false, true, true, true, false)), (String
         ((Ascii (false, false, false, false, false, true, false, false)),
         (String ((Ascii (true, true, true, true, false, true, true, false)),
         (String ((Ascii (false, true, true, false, false, true, true,
         false)), (String ((Ascii (false, false, false, false, false, true,
         false, false)), (String ((Ascii (false, true, false, false, false,
         true, true, false)), (String ((Ascii (true, true, true, true, false,
         true, true, false)), (String ((Ascii (true, false, true, false,
         true, true, true, false)), (String ((Ascii (false, true, true, true,
         false, true, true, false)), (String ((Ascii (false, false, true,
         false, false, true, true, false)), (String ((Ascii (true, true,
         false, false, true, true, true, false)),
         EmptyString))))))))))))))))))))))))))))))))))))))

(** val hbu_while :
    nat -> z list -> z -> z -> z -> z list -> (z list * z) res **)

let rec hbu_while fuel y lim first index p =
  match fuel with
  | O -> OutOfFuel
  | S f ->
    if Z.ltb index lim
    then bind
           (if Z.ltb first index
            then bind (get_byte y (Z.sub index (Zpos XH))) (fun a ->
                   bind (get_byte y index) (fun b -> Ok (Z.ltb a b)))
            else Ok true) (fun ok ->
           if ok
           then bind (get_byte y index) (fun pos ->
                  bind
                    (guard (Z.ltb pos (zlen p)) (String ((Ascii (true, false,
                      false, true, false, true, true, false)), (String
                      ((Ascii (false, true, true, true, false, true, true,
                      false)), (String ((Ascii (false, false, true, false,
                      false, true, true, false)), (String ((Ascii (true,
                      false, true, false, false, true, true, false)), (String
                      ((Ascii (false, false, false, true, true, true, true,
                      false)), (String ((Ascii (false, false, false, false,
                      false, true, false, false)), (String ((Ascii (true,
                      true, true, true, false, true, true, false)), (String
                      ((Ascii (true, false, true, false, true, true, true,
                      false)), (String ((Ascii (false, false, true, false,
                      true, true, true, false)), (String ((Ascii (false,
                      false, false, false, false, true, false, false)),
                      (String ((Ascii (true, true, true, true, false, true,
                      true, false)), (String ((Ascii (false, true, true,
                      false, false, true, true, false)), (String ((Ascii
                      (false, false, false, false, false, true, false,
                      false)), (String ((Ascii (false, true, false, false,
                      false, true, true, false)), (String ((Ascii (true,
                      true, true, true, false, true, true, false)), (String
                      ((Ascii (true, false, true, false, true, true, true,
                      false)), (String ((Ascii (false, true, true, true,
                      false, true, true, false)), (String ((Ascii (false,
                      false, true, false, false, true, true, false)), (String
                      ((Ascii (true, true, false, false, true, true, true,
                      false)),
                      EmptyString)))))))))))))))))))))))))))))))))))))))
                    (fun _ ->
                    bind
                      (guard
                        (Z.ltb (Z.add index (Zpos XH)) (Zpos (XO (XO (XO (XO
                          (XO (XO (XO (XO XH)))))))))) (String ((Ascii (true,
                        false, true, false, true, true, true, false)),
                        (String ((Ascii (false, false, false, true, true,
                        true, false, false)), (String ((Ascii (false, false,
                        false, false, false, true, false, false)), (String
                        ((Ascii (true, false, false, false, false, true,
                        true, false)), (String ((Ascii (false, false, true,
                        false, false, true, true, false)), (String ((Ascii
                        (false, false, true, false, false, true, true,
                        false)), (String ((Ascii (false, false, false, false,
                        false, true, false, false)), (String ((Ascii (true,
                        true, true, true, false, true, true, false)), (String
                        ((Ascii (false, true, true, false, true, true, true,
                        false)), (String ((Ascii (true, false, true, false,
                        false, true, true, false)), (String ((Ascii (false,
                        true, false, false, true, true, true, false)),
                        (String ((Ascii (false, true, true, false, false,
                        true, true, false)), (String ((Ascii (false, false,
                        true, true, false, true, true, false)), (String
                        ((Ascii (true, true, true, true, false, true, true,
                        false)), (String ((Ascii (true, true, true, false,
                        true, true, true, false)),
                        EmptyString))))))))))))))))))))))))))))))) (fun _ ->
                      hbu_while f y lim first (Z.add index (Zpos XH))
                        (zupd p pos (Zpos XH)))))
           else Err Malformed)
    else Ok (p, index)

(** val hbu_poly :
    z -> z list -> (z list list * z) -> z -> (z list list * z) res **)

let hbu_poly omega y st i =
  let (acc, index) = st in
  bind (get_byte y (Z.add omega i)) (fun c ->
    if (||) (Z.ltb c index)
         (Z.ltb
           (Z.modulo omega (Zpos (XO (XO (XO (XO (XO (XO (XO (XO XH))))))))))
           c)
    then Err Malformed
    else bind
           (hbu_while (S (S (S (S (S (S (S (S (S (S (S (S (S (S (S (S (S (S
             (S (S (S (S (S (S (S (S (S (S (S (S (S (S (S (S (S (S (S (S (S
             (S (S (S (S (S (S (S (S (S (S (S (S (S (S (S (S (S (S (S (S (S
             (S (S (S (S (S (S (S (S (S (S (S (S (S (S (S (S (S (S (S (S (S
             (S (S (S (S (S (S (S (S (S (S (S (S (S (S (S (S (S (S (S (S (S
             (S (S (S (S (S (S (S (S (S (S (S (S (S (S (S (S (S (S (S (S (S
             (S (S (S (S (S (S (S (S (S (S (S (S (S (S (S (S (S (S (S (S (S
             (S (S (S (S (S (S (S (S (S (S (S (S (S (S (S (S (S (S (S (S (S
             (S (S (S (S (S (S (S (S (S (S (S (S (S (S (S (S (S (S (S (S (S
             (S (S (S (S (S (S (S (S (S (S (S (S (S (S (S (S (S (S (S (S (S
             (S (S (S (S (S (S (S (S (S (S (S (S (S (S (S (S (S (S (S (S (S
             (S (S (S (S (S (S (S (S (S (S (S (S (S (S (S (S (S (S (S (S (S
             (S (S (S (S (S (S (S (S
             O)))))))))))))))))))))))))))))))))))))))))))))))))))))))))))))))))))))))))))))))))))))))))))))))))))))))))))))))))))))))))))))))))))))))))))))))))))))))))))))))))))))))))))))))))))))))))))))))))))))))))))))))))))))))))))))))))))))))))))))))))))))))))))))))))
             y c index index
             (zeros (S (S (S (S (S (S (S (S (S (S (S (S (S (S (S (S (S (S (S
               (S (S (S (S (S (S (S (S (S (S (S (S (S (S (S (S (S (S (S (S (S
               (S (S (S (S (S (S (S (S (S (S (S (S (S (S (S (S (S (S (S (S (S
               (S (S (S (S (S (S (S (S (S (S (S (S (S (S (S (S (S (S (S (S (S
               (S (S (S (S (S (S (S (S (S (S (S (S (S (S (S (S (S (S (S (S (S
               (S (S (S (S (S (S (S (S (S (S (S (S (S (S (S (S (S (S (S (S (S
               (S (S (S (S (S (S (S (S (S (S (S (S (S (S (S (S (S (S (S (S (S
               (S (S (S (S (S (S (S (S (S (S (S (S (S (S (S (S (S (S (S (S (S
               (S (S (S (S (S (S (S (S (S (S (S (S (S (S (S (S (S (S (S (S (S
               (S (S (S (S (S (S (S (S (S (S (S (S (S (S (S (S (S (S (S (S (S
               (S (S (S (S (S (S (S (S (S (S (S (S (S (S (S (S (S (S (S (S (S
               (S (S (S (S (S (S (S (S (S (S (S (S (S (S (S (S (S (S (S (S (S
               (S (S (S (S (S (S
               O))))))))))))))))))))))))))))))))))))))))))))))))))))))))))))))))))))))))))))))))))))))))))))))))))))))))))))))))))))))))))))))))))))))))))))))))))))))))))))))))))))))))))))))))))))))))))))))))))))))))))))))))))))))))))))))))))))))))))))))))))))))))))))))))))
           (fun x -> let (p, index') = x in Ok ((app acc (p :: [])), index')))

(** val hint_bit_unpack : nat -> z -> z list -> z list list res **)

let hint_bit_unpack k omega y =
  bind
    (guard (Z.leb Z0 omega) (String ((Ascii (true, false, false, false,
      false, false, true, false)), (String ((Ascii (false, false, true, true,
      false, true, true, false)), (String ((Ascii (true, true, true, false,
      false, true, true, false)), (String ((Ascii (false, false, false,
      false, false, true, false, false)), (String ((Ascii (false, true,
      false, false, true, true, false, false)), (String ((Ascii (true, false,
      false, false, true, true, false, false)), (String ((Ascii (false, true,
      false, true, true, true, false, false)), (String ((Ascii (false, false,
      false, false, false, true, false, false)), (String ((Ascii (true, true,
      true, true, false, true, true, false)), (String ((Ascii (true, false,
      true, true, false, true, true, false)), (String ((Ascii (true, false,
      true, false, false, true, true, false)), (String ((Ascii (true, true,
      true, false, false, true, true, false)), (String ((Ascii (true, false,
      false, false, false, true, true, false)), (String ((Ascii (false,
      false, false, false, false, true, false, false)), (String ((Ascii
      (false, false, true, false, true, true, true, false)), (String ((Ascii
      (false, true, false, false, true, true, true, false)), (String ((Ascii
      (true, false, false, true, true, true, true, false)), (String ((Ascii
      (true, true, true, true, true, false, true, false)), (String ((Ascii
      (true, false, false, true, false, true, true, false)), (String ((Ascii
      (false, true, true, true, false, true, true, false)), (String ((Ascii
      (false, false, true, false, true, true, true, false)), (String ((Ascii
      (true, true, true, true, false, true, true, false)), (String ((Ascii
      (false, false, false, false, false, true, false, false)), (String
      ((Ascii (false, true, true, false, false, true, true, false)), (String
      ((Ascii (true, false, false, false, false, true, true, false)), (String
      ((Ascii (true, false, false, true, false, true, true, false)), (String
      ((Ascii (false, false, true, true, false, true, true, false)),
      EmptyString)))))))))))))))))))))))))))))))))))))))))))))))))))))))
    (fun _ ->
    let kz0 = Z.of_nat k in
    bind
      (guard
        ((&&) (Z.leb (Zpos XH) (Z.add omega kz0))
          (Z.ltb (Z.add omega kz0) (Zpos (XO (XO (XO (XO (XO (XO (XO (XO
            XH))))))))))) (String ((Ascii (true, false, false, false, false,
        false, true, false)), (String ((Ascii (false, false, true, true,
        false, true, true, false)), (String ((Ascii (true, true, true, false,
        false, true, true, false)), (String ((Ascii (false, false, false,
        false, false, true, false, false)), (String ((Ascii (false, true,
        false, false, true, true, false, false)), (String ((Ascii (true,
        false, false, false, true, true, false, false)), (String ((Ascii
        (false, true, false, true, true, true, false, false)), (String
        ((Ascii (false, false, false, false, false, true, false, false)),
        (String ((Ascii (true, true, true, true, false, true, true, false)),
        (String ((Ascii (true, false, true, true, false, true, true, false)),
        (String ((Ascii (true, false, true, false, false, true, true,
        false)), (String ((Ascii (true, true, true, false, false, true, true,
        false)), (String ((Ascii (true, false, false, false, false, true,
        true, false)), (String ((Ascii (true, true, false, true, false, true,
        false, false)), (String ((Ascii (true, true, false, true, false,
        false, true, false)), (String ((Ascii (false, false, false, false,
        false, true, false, false)), (String ((Ascii (false, false, true,
        false, true, true, true, false)), (String ((Ascii (true, true, true,
        true, false, true, true, false)), (String ((Ascii (true, true, true,
        true, false, true, true, false)), (String ((Ascii (false, false,
        false, false, false, true, false, false)), (String ((Ascii (false,
        false, true, true, false, true, true, false)), (String ((Ascii (true,
        false, false, false, false, true, true, false)), (String ((Ascii
        (false, true, false, false, true, true, true, false)), (String
        ((Ascii (true, true, true, false, false, true, true, false)), (String
        ((Ascii (true, false, true, false, false, true, true, false)),
        EmptyString)))))))))))))))))))))))))))))))))))))))))))))))))))
      (fun _ ->
      bind
        (guard (Z.eqb (zlen y) (Z.add omega kz0)) (String ((Ascii (true,
          false, false, false, false, false, true, false)), (String ((Ascii
          (false, false, true, true, false, true, true, false)), (String
          ((Ascii (true, true, true, false, false, true, true, false)),
          (String ((Ascii (false, false, false, false, false, true, false,
          false)), (String ((Ascii (false, true, false, false, true, true,
          false, false)), (String ((Ascii (true, false, false, false, true,
          true, false, false)), (String ((Ascii (false, true, false, true,
          true, true, false, false)), (String ((Ascii (false, false, false,
          false, false, true, false, false)), (String ((Ascii (false, true,
          false, false, false, true, true, false)), (String ((Ascii (true,
          false, false, false, false, true, true, false)), (String ((Ascii
          (false, false, true, false, false, true, true, false)), (String
          ((Ascii (false, false, false, false, false, true, false, false)),
          (String ((Ascii (true, true, true, true, false, true, true,
          false)), (String ((Ascii (true, false, true, false, true, true,
          true, false)), (String ((Ascii (false, false, true, false, true,
          true, true, false)), (String ((Ascii (false, false, false, false,
          true, true, true, false)), (String ((Ascii (true, false, true,
          false, true, true, true, false)), (String ((Ascii (false, false,
          true, false, true, true, true, false)), (String ((Ascii (false,
          false, false, false, false, true, false, false)), (String ((Ascii
          (true, true, false, false, true, true, true, false)), (String
          ((Ascii (true, false, false, true, false, true, true, false)),
          (String ((Ascii (false, true, false, true, true, true, true,
          false)), (String ((Ascii (true, false, true, false, false, true,
          true, false)),
          EmptyString)))))))))))))))))))))))))))))))))))))))))))))))
        (fun _ ->
        bind (foldM (hbu_poly omega y) (map Z.of_nat (seq O k)) ([], Z0))
          (fun x ->
          let (h, index) = x in
          bind
            (mapM (get_byte y)
              (map (fun d0 -> Z.add index (Z.of_nat d0))
                (seq O
                  (Z.to_nat
                    (Z.sub
                      (Z.modulo omega (Zpos (XO (XO (XO (XO (XO (XO (XO (XO
                        XH)))))))))) index))))) (fun rest ->
            bind (ensure (forallb (fun b -> Z.eqb b Z0) rest) Malformed)
              (fun _ ->
              bind
                (guard (forallb (fun r -> Z.leb (count_ones r) omega) h)
                  (String ((Ascii (true, false, false, false, false, false,
                  true, false)), (String ((Ascii (false, false, true, true,
                  false, true, true, false)), (String ((Ascii (true, true,
                  true, false, false, true, true, false)), (String ((Ascii
                  (false, false, false, false, false, true, false, false)),
                  (String ((Ascii (false, true, false, false, true, true,
                  false, false)), (String ((Ascii (true, false, false, false,
                  true, true, false, false)), (String ((Ascii (false, true,
                  false, true, true, true, false, false)), (String ((Ascii
                  (false, false, false, false, false, true, false, false)),
                  (String ((Ascii (false, false, true, false, true, true,
                  true, false)), (String ((Ascii (true, true, true, true,
                  false, true, true, false)), (String ((Ascii (true, true,
                  true, true, false, true, true, false)), (String ((Ascii
                  (false, false, false, false, false, true, false, false)),
                  (String ((Ascii (true, false, true, true, false, true,
                  true, false)), (String ((Ascii (true, false, false, false,
                  false, true, true, false)), (String ((Ascii (false, true,
                  true, true, false, true, true, false)), (String ((Ascii
                  (true, false, false, true, true, true, true, false)),
                  (String ((Ascii (false, false, false, false, false, true,
                  false, false)), (String ((Ascii (true, false, false, false,
                  true, true, false, false)), (String ((Ascii (true, true,
                  true, false, false, true, false, false)), (String ((Ascii
                  (true, true, false, false, true, true, true, false)),
                  (String ((Ascii (false, false, false, false, false, true,
                  false, false)), (String ((Ascii (true, false, false, true,
                  false, true, true, false)), (String ((Ascii (false, true,
                  true, true, false, true, true, false)), (String ((Ascii
                  (false, false, false, false, false, true, false, false)),
                  (String ((Ascii (false, false, false, true, false, true,
                  true, false)),
                  EmptyString)))))))))))))))))))))))))))))))))))))))))))))))))))
                (fun _ -> Ok h)))))))

(** val kz : params -> z **)

let kz p =
  Z.of_nat p.p_k

(** val lz : params -> z **)

let lz p =
  Z.of_nat p.p_l

(** val bLQD : z **)

let bLQD =
  Z.sub (bitlen (Z.sub q (Zpos XH))) d

(** val t1MAX : z **)

let t1MAX =
  Z.sub (Z.pow (Zpos (XO XH)) bLQD) (Zpos XH)

(** val tOP : z **)

let tOP =
  Z.pow (Zpos (XO XH)) (Z.sub d (Zpos XH))

(** val pk_encode : params -> bytes -> z list list -> bytes res **)

let pk_encode p rho t1 =
  bind
    (guard (forallb (fun t -> is_in_range t Z0 t1MAX) t1) (String ((Ascii
      (true, false, false, false, false, false, true, false)), (String
      ((Ascii (false, false, true, true, false, true, true, false)), (String
      ((Ascii (true, true, true, false, false, true, true, false)), (String
      ((Ascii (false, false, false, false, false, true, false, false)),
      (String ((Ascii (false, true, false, false, true, true, false, false)),
      (String ((Ascii (false, true, false, false, true, true, false, false)),
      (String ((Ascii (false, true, false, true, true, true, false, false)),
      (String ((Ascii (false, false, false, false, false, true, false,
      false)), (String ((Ascii (false, false, true, false, true, true, true,
      false)), (String ((Ascii (true, false, false, false, true, true, false,
      false)), (String ((Ascii (false, false, false, false, false, true,
      false, false)), (String ((Ascii (true, true, true, true, false, true,
      true, false)), (String ((Ascii (true, false, true, false, true, true,
      true, false)), (String ((Ascii (false, false, true, false, true, true,
      true, false)), (String ((Ascii (false, false, false, false, false,
      true, false, false)), (String ((Ascii (true, true, true, true, false,
      true, true, false)), (String ((Ascii (false, true, true, false, false,
      true, true, false)), (String ((Ascii (false, false, false, false,
      false, true, false, false)), (String ((Ascii (false, true, false,
      false, true, true, true, false)), (String ((Ascii (true, false, false,
      false, false, true, true, false)), (String ((Ascii (false, true, true,
      true, false, true, true, false)), (String ((Ascii (true, true, true,
      false, false, true, true, false)), (String ((Ascii (true, false, true,
      false, false, true, true, false)),
      EmptyString))))))))))))))))))))))))))))))))))))))))))))))) (fun _ ->
    bind
      (guard
        (Z.eqb p.p_pk_len
          (Z.add (Zpos (XO (XO (XO (XO (XO XH))))))
            (Z.mul (Z.mul (Zpos (XO (XO (XO (XO (XO XH)))))) (kz p)) bLQD)))
        (String ((Ascii (true, false, false, false, false, false, true,
        false)), (String ((Ascii (false, false, true, true, false, true,
        true, false)), (String ((Ascii (true, true, true, false, false, true,
        true, false)), (String ((Ascii (false, false, false, false, false,
        true, false, false)), (String ((Ascii (false, true, false, false,
        true, true, false, false)), (String ((Ascii (false, true, false,
        false, true, true, false, false)), (String ((Ascii (false, true,
        false, true, true, true, false, false)), (String ((Ascii (false,
        false, false, false, false, true, false, false)), (String ((Ascii
        (false, true, false, false, false, true, true, false)), (String
        ((Ascii (true, false, false, false, false, true, true, false)),
        (String ((Ascii (false, false, true, false, false, true, true,
        false)), (String ((Ascii (false, false, false, false, false, true,
        false, false)), (String ((Ascii (false, false, false, false, true,
        true, true, false)), (String ((Ascii (true, true, false, true, false,
        true, true, false)), (String ((Ascii (true, true, true, true, false,
        true, false, false)), (String ((Ascii (true, true, false, false,
        false, true, true, false)), (String ((Ascii (true, true, true, true,
        false, true, true, false)), (String ((Ascii (false, true, true, true,
        false, true, true, false)), (String ((Ascii (false, true, true,
        false, false, true, true, false)), (String ((Ascii (true, false,
        false, true, false, true, true, false)), (String ((Ascii (true, true,
        true, false, false, true, true, false)), (String ((Ascii (false,
        false, false, false, false, true, false, false)), (String ((Ascii
        (true, true, false, false, true, true, true, false)), (String ((Ascii
        (true, false, false, true, false, true, true, false)), (String
        ((Ascii (false, true, false, true, true, true, true, false)), (String
        ((Ascii (true, false, true, false, false, true, true, false)),
        EmptyString)))))))))))))))))))))))))))))))))))))))))))))))))))))
      (fun _ ->
      bind
        (mapM (fun t ->
          simple_bit_pack t t1MAX
            (Z.mul (Zpos (XO (XO (XO (XO (XO XH)))))) bLQD)) t1) (fun body ->
        Ok (app rho (concat body)))))

(** val pk_decode : params -> bytes -> (bytes * z list list) res **)

let pk_decode p pk =
  bind
    (guard
      (Z.eqb (zlen pk)
        (Z.add (Zpos (XO (XO (XO (XO (XO XH))))))
          (Z.mul (Z.mul (Zpos (XO (XO (XO (XO (XO XH)))))) (kz p)) bLQD)))
      (String ((Ascii (true, false, false, false, false, false, true,
      false)), (String ((Ascii (false, false, true, true, false, true, true,
      false)), (String ((Ascii (true, true, true, false, false, true, true,
      false)), (String ((Ascii (false, false, false, false, false, true,
      false, false)), (String ((Ascii (false, true, false, false, true, true,
      false, false)), (String ((Ascii (true, true, false, false, true, true,
      false, false)), (String ((Ascii (false, true, false, true, true, true,
      false, false)), (String ((Ascii (false, false, false, false, false,
      true, false, false)), (String ((Ascii (true, false, false, true, false,
      true, true, false)), (String ((Ascii (false, true, true, true, false,
      true, true, false)), (String ((Ascii (true, true, false, false, false,
      true, true, false)), (String ((Ascii (true, true, true, true, false,
      true, true, false)), (String ((Ascii (false, true, false, false, true,
      true, true, false)), (String ((Ascii (false, true, false, false, true,
      true, true, false)), (String ((Ascii (true, false, true, false, false,
      true, true, false)), (String ((Ascii (true, true, false, false, false,
      true, true, false)), (String ((Ascii (false, false, true, false, true,
      true, true, false)), (String ((Ascii (false, false, false, false,
      false, true, false, false)), (String ((Ascii (false, false, false,
      false, true, true, true, false)), (String ((Ascii (true, true, false,
      true, false, true, true, false)), (String ((Ascii (false, false, false,
      false, false, true, false, false)), (String ((Ascii (false, false,
      true, true, false, true, true, false)), (String ((Ascii (true, false,
      true, false, false, true, true, false)), (String ((Ascii (false, true,
      true, true, false, true, true, false)), (String ((Ascii (true, true,
      true, false, false, true, true, false)), (String ((Ascii (false, false,
      true, false, true, true, true, false)), (String ((Ascii (false, false,
      false, true, false, true, true, false)),
      EmptyString)))))))))))))))))))))))))))))))))))))))))))))))))))))))
    (fun _ ->
    bind
      (guard
        (Z.eqb p.p_pk_len
          (Z.add (Zpos (XO (XO (XO (XO (XO XH))))))
            (Z.mul (Z.mul (Zpos (XO (XO (XO (XO (XO XH)))))) (kz p)) bLQD)))
        (String ((Ascii (true, false, false, false, false, false, true,
        false)), (String ((Ascii (false, false, true, true, false, true,
        true, false)), (String ((Ascii (true, true, true, false, false, true,
        true, false)), (String ((Ascii (false, false, false, false, false,
        true, false, false)), (String ((Ascii (false, true, false, false,
        true, true, false, false)), (String ((Ascii (true, true, false,
        false, true, true, false, false)), (String ((Ascii (false, true,
        false, true, true, true, false, false)), (String ((Ascii (false,
        false, false, false, false, true, false, false)), (String ((Ascii
        (false, true, false, false, false, true, true, false)), (String
        ((Ascii (true, false, false, false, false, true, true, false)),
        (String ((Ascii (false, false, true, false, false, true, true,
        false)), (String ((Ascii (false, false, false, false, false, true,
        false, false)), (String ((Ascii (false, false, false, false, true,
        true, true, false)), (String ((Ascii (true, true, false, true, false,
        true, true, false)), (String ((Ascii (true, true, true, true, false,
        true, false, false)), (String ((Ascii (true, true, false, false,
        false, true, true, false)), (String ((Ascii (true, true, true, true,
        false, true, true, false)), (String ((Ascii (false, true, true, true,
        false, true, true, false)), (String ((Ascii (false, true, true,
        false, false, true, true, false)), (String ((Ascii (true, false,
        false, true, false, true, true, false)), (String ((Ascii (true, true,
        true, false, false, true, true, false)), (String ((Ascii (false,
        false, false, false, false, true, false, false)), (String ((Ascii
        (true, true, false, false, true, true, true, false)), (String ((Ascii
        (true, false, false, true, false, true, true, false)), (String
        ((Ascii (false, true, false, true, true, true, true, false)), (String
        ((Ascii (true, false, true, false, false, true, true, false)),
        EmptyString)))))))))))))))))))))))))))))))))))))))))))))))))))))
      (fun _ ->
      let rho = zslice Z0 (Zpos (XO (XO (XO (XO (XO XH)))))) pk in
      bind
        (mapM (fun i ->
          let i0 = Z.of_nat i in
          simple_bit_unpack
            (zslice
              (Z.add (Zpos (XO (XO (XO (XO (XO XH))))))
                (Z.mul (Z.mul (Zpos (XO (XO (XO (XO (XO XH)))))) i0) bLQD))
              (Z.add (Zpos (XO (XO (XO (XO (XO XH))))))
                (Z.mul
                  (Z.mul (Zpos (XO (XO (XO (XO (XO XH))))))
                    (Z.add i0 (Zpos XH))) bLQD)) pk) t1MAX) (seq O p.p_k))
        (fun t1 ->
        bind
          (guard (forallb (fun t -> is_in_range t Z0 t1MAX) t1) (String
            ((Ascii (true, false, false, false, false, false, true, false)),
            (String ((Ascii (false, false, true, true, false, true, true,
            false)), (String ((Ascii (true, true, true, false, false, true,
            true, false)), (String ((Ascii (false, false, false, false,
            false, true, false, false)), (String ((Ascii (false, true, false,
            false, true, true, false, false)), (String ((Ascii (true, true,
            false, false, true, true, false, false)), (String ((Ascii (false,
            true, false, true, true, true, false, false)), (String ((Ascii
            (false, false, false, false, false, true, false, false)), (String
            ((Ascii (false, false, true, false, true, true, true, false)),
            (String ((Ascii (true, false, false, false, true, true, false,
            false)), (String ((Ascii (false, false, false, false, false,
            true, false, false)), (String ((Ascii (true, true, true, true,
            false, true, true, false)), (String ((Ascii (true, false, true,
            false, true, true, true, false)), (String ((Ascii (false, false,
            true, false, true, true, true, false)), (String ((Ascii (false,
            false, false, false, false, true, false, false)), (String ((Ascii
            (true, true, true, true, false, true, true, false)), (String
            ((Ascii (false, true, true, false, false, true, true, false)),
            (String ((Ascii (false, false, false, false, false, true, false,
            false)), (String ((Ascii (false, true, false, false, true, true,
            true, false)), (String ((Ascii (true, false, false, false, false,
            true, true, false)), (String ((Ascii (false, true, true, true,
            false, true, true, false)), (String ((Ascii (true, true, true,
            false, false, true, true, false)), (String ((Ascii (true, false,
            true, false, false, true, true, false)),
            EmptyString)))))))))))))))))))))))))))))))))))))))))))))))
          (fun _ -> Ok (rho, t1)))))

(** val sk_len_formula : params -> z **)

let sk_len_formula p =
  Z.add (Zpos (XO (XO (XO (XO (XO (XO (XO XH))))))))
    (Z.mul (Zpos (XO (XO (XO (XO (XO XH))))))
      (Z.add
        (Z.mul (Z.add (kz p) (lz p)) (bitlen (Z.mul (Zpos (XO XH)) p.p_eta)))
        (Z.mul d (kz p))))

(** val sk_encode :
    params -> bytes -> bytes -> bytes -> z list list -> z list list -> z list
    list -> bytes res **)

let sk_encode p rho k tr s1 s2 t0 =
  let eta = p.p_eta in
  bind
    (guard ((||) (Z.eqb eta (Zpos (XO XH))) (Z.eqb eta (Zpos (XO (XO XH)))))
      (String ((Ascii (true, false, false, false, false, false, true,
      false)), (String ((Ascii (false, false, true, true, false, true, true,
      false)), (String ((Ascii (true, true, true, false, false, true, true,
      false)), (String ((Ascii (false, false, false, false, false, true,
      false, false)), (String ((Ascii (false, true, false, false, true, true,
      false, false)), (String ((Ascii (false, false, true, false, true, true,
      false, false)), (String ((Ascii (false, true, false, true, true, true,
      false, false)), (String ((Ascii (false, false, false, false, false,
      true, false, false)), (String ((Ascii (true, false, false, true, false,
      true, true, false)), (String ((Ascii (false, true, true, true, false,
      true, true, false)), (String ((Ascii (true, true, false, false, false,
      true, true, false)), (String ((Ascii (true, true, true, true, false,
      true, true, false)), (String ((Ascii (false, true, false, false, true,
      true, true, false)), (String ((Ascii (false, true, false, false, true,
      true, true, false)), (String ((Ascii (true, false, true, false, false,
      true, true, false)), (String ((Ascii (true, true, false, false, false,
      true, true, false)), (String ((Ascii (false, false, true, false, true,
      true, true, false)), (String ((Ascii (false, false, false, false,
      false, true, false, false)), (String ((Ascii (true, false, true, false,
      false, true, true, false)), (String ((Ascii (false, false, true, false,
      true, true, true, false)), (String ((Ascii (true, false, false, false,
      false, true, true, false)),
      EmptyString))))))))))))))))))))))))))))))))))))))))))) (fun _ ->
    bind
      (guard (forallb (fun x -> is_in_range x eta eta) s1) (String ((Ascii
        (true, false, false, false, false, false, true, false)), (String
        ((Ascii (false, false, true, true, false, true, true, false)),
        (String ((Ascii (true, true, true, false, false, true, true, false)),
        (String ((Ascii (false, false, false, false, false, true, false,
        false)), (String ((Ascii (false, true, false, false, true, true,
        false, false)), (String ((Ascii (false, false, true, false, true,
        true, false, false)), (String ((Ascii (false, true, false, true,
        true, true, false, false)), (String ((Ascii (false, false, false,
        false, false, true, false, false)), (String ((Ascii (true, true,
        false, false, true, true, true, false)), (String ((Ascii (true,
        false, false, false, true, true, false, false)), (String ((Ascii
        (false, false, false, false, false, true, false, false)), (String
        ((Ascii (true, true, true, true, false, true, true, false)), (String
        ((Ascii (true, false, true, false, true, true, true, false)), (String
        ((Ascii (false, false, true, false, true, true, true, false)),
        (String ((Ascii (false, false, false, false, false, true, false,
        false)), (String ((Ascii (true, true, true, true, false, true, true,
        false)), (String ((Ascii (false, true, true, false, false, true,
        true, false)), (String ((Ascii (false, false, false, false, false,
        true, false, false)), (String ((Ascii (false, true, false, false,
        true, true, true, false)), (String ((Ascii (true, false, false,
        false, false, true, true, false)), (String ((Ascii (false, true,
        true, true, false, true, true, false)), (String ((Ascii (true, true,
        true, false, false, true, true, false)), (String ((Ascii (true,
        false, true, false, false, true, true, false)),
        EmptyString))))))))))))))))))))))))))))))))))))))))))))))) (fun _ ->
      bind
        (guard (forallb (fun x -> is_in_range x eta eta) s2) (String ((Ascii
          (true, false, false, false, false, false, true, false)), (String
          ((Ascii (false, false, true, true, false, true, true, false)),
          (String ((Ascii (true, true, true, false, false, true, true,
          false)), (String ((Ascii (false, false, false, false, false, true,
          false, false)), (String ((Ascii (false, true, false, false, true,
          true, false, false)), (String ((Ascii (false, false, true, false,
          true, true, false, false)), (String ((Ascii (false, true, false,
          true, true, true, false, false)), (String ((Ascii (false, false,
          false, false, false, true, false, false)), (String ((Ascii (true,
          true, false, false, true, true, true, false)), (String ((Ascii
          (false, true, false, false, true, true, false, false)), (String
          ((Ascii (false, false, false, false, false, true, false, false)),
          (String ((Ascii (true, true, true, true, false, true, true,
          false)), (String ((Ascii (true, false, true, false, true, true,
          true, false)), (String ((Ascii (false, false, true, false, true,
          true, true, false)), (String ((Ascii (false, false, false, false,
          false, true, false, false)), (String ((Ascii (true, true, true,
          true, false, true, true, false)), (String ((Ascii (false, true,
          true, false, false, true, true, false)), (String ((Ascii (false,
          false, false, false, false, true, false, false)), (String ((Ascii
          (false, true, false, false, true, true, true, false)), (String
          ((Ascii (true, false, false, false, false, true, true, false)),
          (String ((Ascii (false, true, true, true, false, true, true,
          false)), (String ((Ascii (true, true, true, false, false, true,
          true, false)), (String ((Ascii (true, false, true, false, false,
          true, true, false)),
          EmptyString)))))))))))))))))))))))))))))))))))))))))))))))
        (fun _ ->
        bind
          (guard
            (forallb (fun x -> is_in_range x (Z.sub tOP (Zpos XH)) tOP) t0)
            (String ((Ascii (true, false, false, false, false, false, true,
            false)), (String ((Ascii (false, false, true, true, false, true,
            true, false)), (String ((Ascii (true, true, true, false, false,
            true, true, false)), (String ((Ascii (false, false, false, false,
            false, true, false, false)), (String ((Ascii (false, true, false,
            false, true, true, false, false)), (String ((Ascii (false, false,
            true, false, true, true, false, false)), (String ((Ascii (false,
            true, false, true, true, true, false, false)), (String ((Ascii
            (false, false, false, false, false, true, false, false)), (String
            ((Ascii (false, false, true, false, true, true, true, false)),
            (String ((Ascii (false, false, false, false, true, true, false,
            false)), (String ((Ascii (false, false, false, false, false,
            true, false, false)), (String ((Ascii (true, true, true, true,
            false, true, true, false)), (String ((Ascii (true, false, true,
            false, true, true, true, false)), (String ((Ascii (false, false,
            true, false, true, true, true, false)), (String ((Ascii (false,
            false, false, false, false, true, false, false)), (String ((Ascii
            (true, true, true, true, false, true, true, false)), (String
            ((Ascii (false, true, true, false, false, true, true, false)),
            (String ((Ascii (false, false, false, false, false, true, false,
            false)), (String ((Ascii (false, true, false, false, true, true,
            true, false)), (String ((Ascii (true, false, false, false, false,
            true, true, false)), (String ((Ascii (false, true, true, true,
            false, true, true, false)), (String ((Ascii (true, true, true,
            false, false, true, true, false)), (String ((Ascii (true, false,
            true, false, false, true, true, false)),
            EmptyString)))))))))))))))))))))))))))))))))))))))))))))))
          (fun _ ->
          bind
            (guard (Z.eqb p.p_sk_len (sk_len_formula p)) (String ((Ascii
              (true, false, false, false, false, false, true, false)),
              (String ((Ascii (false, false, true, true, false, true, true,
              false)), (String ((Ascii (true, true, true, false, false, true,
              true, false)), (String ((Ascii (false, false, false, false,
              false, true, false, false)), (String ((Ascii (false, true,
              false, false, true, true, false, false)), (String ((Ascii
              (false, false, true, false, true, true, false, false)), (String
              ((Ascii (false, true, false, true, true, true, false, false)),
              (String ((Ascii (false, false, false, false, false, true,
              false, false)), (String ((Ascii (false, true, false, false,
              false, true, true, false)), (String ((Ascii (true, false,
              false, false, false, true, true, false)), (String ((Ascii
              (false, false, true, false, false, true, true, false)), (String
              ((Ascii (false, false, false, false, false, true, false,
              false)), (String ((Ascii (true, true, false, false, true, true,
              true, false)), (String ((Ascii (true, true, false, true, false,
              true, true, false)), (String ((Ascii (true, true, true, true,
              false, true, false, false)), (String ((Ascii (true, true,
              false, false, false, true, true, false)), (String ((Ascii
              (true, true, true, true, false, true, true, false)), (String
              ((Ascii (false, true, true, true, false, true, true, false)),
              (String ((Ascii (false, true, true, false, false, true, true,
              false)), (String ((Ascii (true, false, false, true, false,
              true, true, false)), (String ((Ascii (true, true, true, false,
              false, true, true, false)), (String ((Ascii (false, false,
              false, false, false, true, false, false)), (String ((Ascii
              (true, true, false, false, true, true, true, false)), (String
              ((Ascii (true, false, false, true, false, true, true, false)),
              (String ((Ascii (false, true, false, true, true, true, true,
              false)), (String ((Ascii (true, false, true, false, false,
              true, true, false)),
              EmptyString)))))))))))))))))))))))))))))))))))))))))))))))))))))
            (fun _ ->
            let step0 =
              Z.mul (Zpos (XO (XO (XO (XO (XO XH))))))
                (bitlen (Z.mul (Zpos (XO XH)) eta))
            in
            bind (mapM (fun p0 -> bit_pack p0 eta eta step0) s1) (fun b1 ->
              bind (mapM (fun p0 -> bit_pack p0 eta eta step0) s2) (fun b2 ->
                bind
                  (mapM (fun p0 ->
                    bit_pack p0 (Z.sub tOP (Zpos XH)) tOP
                      (Z.mul (Zpos (XO (XO (XO (XO (XO XH)))))) d)) t0)
                  (fun b3 -> Ok
                  (app rho
                    (app k
                      (app tr (app (concat b1) (app (concat b2) (concat b3))))))))))))))

(** val sk_decode :
    params -> bytes -> (((((bytes * bytes) * bytes) * z list list) * z list
    list) * z list list) res **)

let sk_decode p sk =
  let eta = p.p_eta in
  bind
    (guard ((||) (Z.eqb eta (Zpos (XO XH))) (Z.eqb eta (Zpos (XO (XO XH)))))
      (String ((Ascii (true, false, false, false, false, false, true,
      false)), (String ((Ascii (false, false, true, true, false, true, true,
      false)), (String ((Ascii (true, true, true, false, false, true, true,
      false)), (String ((Ascii (false, false, false, false, false, true,
      false, false)), (String ((Ascii (false, true, false, false, true, true,
      false, false)), (String ((Ascii (true, false, true, false, true, true,
      false, false)), (String ((Ascii (false, true, false, true, true, true,
      false, false)), (String ((Ascii (false, false, false, false, false,
      true, false, false)), (String ((Ascii (true, false, false, true, false,
      true, true, false)), (String ((Ascii (false, true, true, true, false,
      true, true, false)), (String ((Ascii (true, true, false, false, false,
      true, true, false)), (String ((Ascii (true, true, true, true, false,
      true, true, false)), (String ((Ascii (false, true, false, false, true,
      true, true, false)), (String ((Ascii (false, true, false, false, true,
      true, true, false)), (String ((Ascii (true, false, true, false, false,
      true, true, false)), (String ((Ascii (true, true, false, false, false,
      true, true, false)), (String ((Ascii (false, false, true, false, true,
      true, true, false)), (String ((Ascii (false, false, false, false,
      false, true, false, false)), (String ((Ascii (true, false, true, false,
      false, true, true, false)), (String ((Ascii (false, false, true, false,
      true, true, true, false)), (String ((Ascii (true, false, false, false,
      false, true, true, false)),
      EmptyString))))))))))))))))))))))))))))))))))))))))))) (fun _ ->
    bind
      (guard (Z.eqb p.p_sk_len (sk_len_formula p)) (String ((Ascii (true,
        false, false, false, false, false, true, false)), (String ((Ascii
        (false, false, true, true, false, true, true, false)), (String
        ((Ascii (true, true, true, false, false, true, true, false)), (String
        ((Ascii (false, false, false, false, false, true, false, false)),
        (String ((Ascii (false, true, false, false, true, true, false,
        false)), (String ((Ascii (true, false, true, false, true, true,
        false, false)), (String ((Ascii (false, true, false, true, true,
        true, false, false)), (String ((Ascii (false, false, false, false,
        false, true, false, false)), (String ((Ascii (false, true, false,
        false, false, true, true, false)), (String ((Ascii (true, false,
        false, false, false, true, true, false)), (String ((Ascii (false,
        false, true, false, false, true, true, false)), (String ((Ascii
        (false, false, false, false, false, true, false, false)), (String
        ((Ascii (true, true, false, false, true, true, true, false)), (String
        ((Ascii (true, true, false, true, false, true, true, false)), (String
        ((Ascii (true, true, true, true, false, true, false, false)), (String
        ((Ascii (true, true, false, false, false, true, true, false)),
        (String ((Ascii (true, true, true, true, false, true, true, false)),
        (String ((Ascii (false, true, true, true, false, true, true, false)),
        (String ((Ascii (false, true, true, false, false, true, true,
        false)), (String ((Ascii (true, false, false, true, false, true,
        true, false)), (String ((Ascii (true, true, true, false, false, true,
        true, false)), (String ((Ascii (false, false, false, false, false,
        true, false, false)), (String ((Ascii (true, true, false, false,
        true, true, true, false)), (String ((Ascii (true, false, false, true,
        false, true, true, false)), (String ((Ascii (false, true, false,
        true, true, true, true, false)), (String ((Ascii (true, false, true,
        false, false, true, true, false)),
        EmptyString)))))))))))))))))))))))))))))))))))))))))))))))))))))
      (fun _ ->
      let rho = zslice Z0 (Zpos (XO (XO (XO (XO (XO XH)))))) sk in
      let k =
        zslice (Zpos (XO (XO (XO (XO (XO XH)))))) (Zpos (XO (XO (XO (XO (XO
          (XO XH))))))) sk
      in
      let tr =
        zslice (Zpos (XO (XO (XO (XO (XO (XO XH))))))) (Zpos (XO (XO (XO (XO
          (XO (XO (XO XH)))))))) sk
      in
      let start = Zpos (XO (XO (XO (XO (XO (XO (XO XH))))))) in
      let step0 =
        Z.mul (Zpos (XO (XO (XO (XO (XO XH))))))
          (bitlen (Z.mul (Zpos (XO XH)) eta))
      in
      bind
        (mapM (fun i ->
          let i0 = Z.of_nat i in
          bit_unpack
            (zslice (Z.add start (Z.mul i0 step0))
              (Z.add start (Z.mul (Z.add i0 (Zpos XH)) step0)) sk) eta eta)
          (seq O p.p_l)) (fun s1 ->
        let start0 = Z.add start (Z.mul (lz p) step0) in
        bind
          (mapM (fun i ->
            let i0 = Z.of_nat i in
            bit_unpack
              (zslice (Z.add start0 (Z.mul i0 step0))
                (Z.add start0 (Z.mul (Z.add i0 (Zpos XH)) step0)) sk) eta eta)
            (seq O p.p_k)) (fun s2 ->
          let start1 = Z.add start0 (Z.mul (kz p) step0) in
          let step1 = Z.mul (Zpos (XO (XO (XO (XO (XO XH)))))) d in
          bind
            (mapM (fun i ->
              let i0 = Z.of_nat i in
              bit_unpack
                (zslice (Z.add start1 (Z.mul i0 step1))
                  (Z.add start1 (Z.mul (Z.add i0 (Zpos XH)) step1)) sk)
                (Z.sub tOP (Zpos XH)) tOP) (seq O p.p_k)) (fun t0 ->
            bind
              (guard (Z.eqb (Z.add start1 (Z.mul (kz p) step1)) (zlen sk))
                (String ((Ascii (true, false, false, false, false, false,
                true, false)), (String ((Ascii (false, false, true, true,
                false, true, true, false)), (String ((Ascii (true, true,
                true, false, false, true, true, false)), (String ((Ascii
                (false, false, false, false, false, true, false, false)),
                (String ((Ascii (false, true, false, false, true, true,
                false, false)), (String ((Ascii (true, false, true, false,
                true, true, false, false)), (String ((Ascii (false, true,
                false, true, true, true, false, false)), (String ((Ascii
                (false, false, false, false, false, true, false, false)),
                (String ((Ascii (false, false, true, true, false, true, true,
                false)), (String ((Ascii (true, false, true, false, false,
                true, true, false)), (String ((Ascii (false, true, true,
                true, false, true, true, false)), (String ((Ascii (true,
                true, true, false, false, true, true, false)), (String
                ((Ascii (false, false, true, false, true, true, true,
                false)), (String ((Ascii (false, false, false, true, false,
                true, true, false)), (String ((Ascii (false, false, false,
                false, false, true, false, false)), (String ((Ascii (true,
                false, true, true, false, true, true, false)), (String
                ((Ascii (true, false, false, true, false, true, true,
                false)), (String ((Ascii (true, true, false, false, true,
                true, true, false)), (String ((Ascii (true, true, false,
                false, false, true, true, false)), (String ((Ascii (true,
                false, false, false, false, true, true, false)), (String
                ((Ascii (false, false, true, true, false, true, true,
                false)), (String ((Ascii (true, true, false, false, false,
                true, true, false)),
                EmptyString)))))))))))))))))))))))))))))))))))))))))))))
              (fun _ -> Ok (((((rho, k), tr), s1), s2), t0)))))))

(** val sig_len_formula : params -> z **)

let sig_len_formula p =
  Z.add
    (Z.add
      (Z.add p.p_lambda_div4
        (Z.mul (Z.mul (lz p) (Zpos (XO (XO (XO (XO (XO XH)))))))
          (Z.add (Zpos XH) (bitlen (Z.sub p.p_gamma1 (Zpos XH))))))
      (Z.abs p.p_omega)) (kz p)

(** val sig_encode :
    bool -> params -> bytes -> z list list -> z list list -> bytes res **)

let sig_encode ctest p c_tilde z0 h =
  let g1 = p.p_gamma1 in
  bind
    (guard (forallb (fun x -> is_in_range x (Z.sub g1 (Zpos XH)) g1) z0)
      (String ((Ascii (true, false, false, false, false, false, true,
      false)), (String ((Ascii (false, false, true, true, false, true, true,
      false)), (String ((Ascii (true, true, true, false, false, true, true,
      false)), (String ((Ascii (false, false, false, false, false, true,
      false, false)), (String ((Ascii (false, true, false, false, true, true,
      false, false)), (String ((Ascii (false, true, true, false, true, true,
      false, false)), (String ((Ascii (false, true, false, true, true, true,
      false, false)), (String ((Ascii (false, false, false, false, false,
      true, false, false)), (String ((Ascii (false, true, false, true, true,
      true, true, false)), (String ((Ascii (false, false, false, false,
      false, true, false, false)), (String ((Ascii (true, true, true, true,
      false, true, true, false)), (String ((Ascii (true, false, true, false,
      true, true, true, false)), (String ((Ascii (false, false, true, false,
      true, true, true, false)), (String ((Ascii (false, false, false, false,
      false, true, false, false)), (String ((Ascii (true, true, true, true,
      false, true, true, false)), (String ((Ascii (false, true, true, false,
      false, true, true, false)), (String ((Ascii (false, false, false,
      false, false, true, false, false)), (String ((Ascii (false, true,
      false, false, true, true, true, false)), (String ((Ascii (true, false,
      false, false, false, true, true, false)), (String ((Ascii (false, true,
      true, true, false, true, true, false)), (String ((Ascii (true, true,
      true, false, false, true, true, false)), (String ((Ascii (true, false,
      true, false, false, true, true, false)),
      EmptyString))))))))))))))))))))))))))))))))))))))))))))) (fun _ ->
    bind
      (guard (forallb (fun x -> is_in_range x Z0 (Zpos XH)) h) (String
        ((Ascii (true, false, false, false, false, false, true, false)),
        (String ((Ascii (false, false, true, true, false, true, true,
        false)), (String ((Ascii (true, true, true, false, false, true, true,
        false)), (String ((Ascii (false, false, false, false, false, true,
        false, false)), (String ((Ascii (false, true, false, false, true,
        true, false, false)), (String ((Ascii (false, true, true, false,
        true, true, false, false)), (String ((Ascii (false, true, false,
        true, true, true, false, false)), (String ((Ascii (false, false,
        false, false, false, true, false, false)), (String ((Ascii (false,
        false, false, true, false, true, true, false)), (String ((Ascii
        (false, false, false, false, false, true, false, false)), (String
        ((Ascii (true, true, true, true, false, true, true, false)), (String
        ((Ascii (true, false, true, false, true, true, true, false)), (String
        ((Ascii (false, false, true, false, true, true, true, false)),
        (String ((Ascii (false, false, false, false, false, true, false,
        false)), (String ((Ascii (true, true, true, true, false, true, true,
        false)), (String ((Ascii (false, true, true, false, false, true,
        true, false)), (String ((Ascii (false, false, false, false, false,
        true, false, false)), (String ((Ascii (false, true, false, false,
        true, true, true, false)), (String ((Ascii (true, false, false,
        false, false, true, true, false)), (String ((Ascii (false, true,
        true, true, false, true, true, false)), (String ((Ascii (true, true,
        true, false, false, true, true, false)), (String ((Ascii (true,
        false, true, false, false, true, true, false)),
        EmptyString))))))))))))))))))))))))))))))))))))))))))))) (fun _ ->
      bind
        (guard (Z.eqb p.p_sig_len (sig_len_formula p)) (String ((Ascii (true,
          false, false, false, false, false, true, false)), (String ((Ascii
          (false, false, true, true, false, true, true, false)), (String
          ((Ascii (true, true, true, false, false, true, true, false)),
          (String ((Ascii (false, false, false, false, false, true, false,
          false)), (String ((Ascii (false, true, false, false, true, true,
          false, false)), (String ((Ascii (false, true, true, false, true,
          true, false, false)), (String ((Ascii (false, true, false, true,
          true, true, false, false)), (String ((Ascii (false, false, false,
          false, false, true, false, false)), (String ((Ascii (false, true,
          false, false, false, true, true, false)), (String ((Ascii (true,
          false, false, false, false, true, true, false)), (String ((Ascii
          (false, false, true, false, false, true, true, false)), (String
          ((Ascii (false, false, false, false, false, true, false, false)),
          (String ((Ascii (true, true, false, false, true, true, true,
          false)), (String ((Ascii (true, false, false, true, false, true,
          true, false)), (String ((Ascii (true, true, true, false, false,
          true, true, false)), (String ((Ascii (true, true, true, true,
          false, true, false, false)), (String ((Ascii (true, true, false,
          false, false, true, true, false)), (String ((Ascii (true, true,
          true, true, false, true, true, false)), (String ((Ascii (false,
          true, true, true, false, true, true, false)), (String ((Ascii
          (false, true, true, false, false, true, true, false)), (String
          ((Ascii (true, false, false, true, false, true, true, false)),
          (String ((Ascii (true, true, true, false, false, true, true,
          false)), (String ((Ascii (false, false, false, false, false, true,
          false, false)), (String ((Ascii (true, true, false, false, true,
          true, true, false)), (String ((Ascii (true, false, false, true,
          false, true, true, false)), (String ((Ascii (false, true, false,
          true, true, true, true, false)), (String ((Ascii (true, false,
          true, false, false, true, true, false)),
          EmptyString)))))))))))))))))))))))))))))))))))))))))))))))))))))))
        (fun _ ->
        let step0 =
          Z.mul (Zpos (XO (XO (XO (XO (XO XH))))))
            (Z.add (Zpos XH) (bitlen (Z.sub g1 (Zpos XH))))
        in
        bind (mapM (fun p0 -> bit_pack p0 (Z.sub g1 (Zpos XH)) g1 step0) z0)
          (fun zb ->
          bind
            (hint_bit_pack ctest p.p_omega h
              (Z.sub p.p_sig_len (Z.add p.p_lambda_div4 (Z.mul (lz p) step0))))
            (fun hb -> Ok (app c_tilde (app (concat zb) hb)))))))

(** val sig_decode :
    params -> bytes -> ((bytes * z list list) * z list list) res **)

let sig_decode p sigma =
  let g1 = p.p_gamma1 in
  bind
    (guard (Z.eqb p.p_sig_len (sig_len_formula p)) (String ((Ascii (true,
      false, false, false, false, false, true, false)), (String ((Ascii
      (false, false, true, true, false, true, true, false)), (String ((Ascii
      (true, true, true, false, false, true, true, false)), (String ((Ascii
      (false, false, false, false, false, true, false, false)), (String
      ((Ascii (false, true, false, false, true, true, false, false)), (String
      ((Ascii (true, true, true, false, true, true, false, false)), (String
      ((Ascii (false, true, false, true, true, true, false, false)), (String
      ((Ascii (false, false, false, false, false, true, false, false)),
      (String ((Ascii (false, true, false, false, false, true, true, false)),
      (String ((Ascii (true, false, false, false, false, true, true, false)),
      (String ((Ascii (false, false, true, false, false, true, true, false)),
      (String ((Ascii (false, false, false, false, false, true, false,
      false)), (String ((Ascii (true, true, false, false, true, true, true,
      false)), (String ((Ascii (true, false, false, true, false, true, true,
      false)), (String ((Ascii (true, true, true, false, false, true, true,
      false)), (String ((Ascii (true, true, true, true, false, true, false,
      false)), (String ((Ascii (true, true, false, false, false, true, true,
      false)), (String ((Ascii (true, true, true, true, false, true, true,
      false)), (String ((Ascii (false, true, true, true, false, true, true,
      false)), (String ((Ascii (false, true, true, false, false, true, true,
      false)), (String ((Ascii (true, false, false, true, false, true, true,
      false)), (String ((Ascii (true, true, true, false, false, true, true,
      false)), (String ((Ascii (false, false, false, false, false, true,
      false, false)), (String ((Ascii (true, true, false, false, true, true,
      true, false)), (String ((Ascii (true, false, false, true, false, true,
      true, false)), (String ((Ascii (false, true, false, true, true, true,
      true, false)), (String ((Ascii (true, false, true, false, false, true,
      true, false)),
      EmptyString)))))))))))))))))))))))))))))))))))))))))))))))))))))))
    (fun _ ->
    let c_tilde = zslice Z0 p.p_lambda_div4 sigma in
    let start = p.p_lambda_div4 in
    let step0 =
      Z.mul (Zpos (XO (XO (XO (XO (XO XH))))))
        (Z.add (bitlen (Z.sub g1 (Zpos XH))) (Zpos XH))
    in
    bind
      (mapM (fun i ->
        let i0 = Z.of_nat i in
        bit_unpack
          (zslice (Z.add start (Z.mul i0 step0))
            (Z.add start (Z.mul (Z.add i0 (Zpos XH)) step0)) sigma)
          (Z.sub g1 (Zpos XH)) g1) (seq O p.p_l)) (fun z0 ->
      bind
        (hint_bit_unpack p.p_k p.p_omega
          (zdrop (Z.add start (Z.mul (lz p) step0)) sigma)) (fun h -> Ok
        ((c_tilde, z0), h))))

(** val w1_encode : params -> z list list -> z -> bytes res **)

let w1_encode p w1 outlen =
  let m =
    Z.sub (Z.div (Z.sub q (Zpos XH)) (Z.mul (Zpos (XO XH)) p.p_gamma2)) (Zpos
      XH)
  in
  bind
    (guard
      (Z.eqb outlen
        (Z.mul (Z.mul (Zpos (XO (XO (XO (XO (XO XH)))))) (kz p)) (bitlen m)))
      (String ((Ascii (true, false, false, false, false, false, true,
      false)), (String ((Ascii (false, false, true, true, false, true, true,
      false)), (String ((Ascii (true, true, true, false, false, true, true,
      false)), (String ((Ascii (false, false, false, false, false, true,
      false, false)), (String ((Ascii (false, true, false, false, true, true,
      false, false)), (String ((Ascii (false, false, false, true, true, true,
      false, false)), (String ((Ascii (false, true, false, true, true, true,
      false, false)), (String ((Ascii (false, false, false, false, false,
      true, false, false)), (String ((Ascii (false, true, false, false,
      false, true, true, false)), (String ((Ascii (true, false, false, false,
      false, true, true, false)), (String ((Ascii (false, false, true, false,
      false, true, true, false)), (String ((Ascii (false, false, false,
      false, false, true, false, false)), (String ((Ascii (true, true, true,
      false, true, true, true, false)), (String ((Ascii (true, false, false,
      false, true, true, false, false)), (String ((Ascii (true, true, true,
      true, true, false, true, false)), (String ((Ascii (false, false, true,
      false, true, true, true, false)), (String ((Ascii (true, false, false,
      true, false, true, true, false)), (String ((Ascii (false, false, true,
      true, false, true, true, false)), (String ((Ascii (false, false, true,
      false, false, true, true, false)), (String ((Ascii (true, false, true,
      false, false, true, true, false)), (String ((Ascii (true, true, true,
      true, false, true, false, false)), (String ((Ascii (true, true, false,
      false, false, true, true, false)), (String ((Ascii (true, true, true,
      true, false, true, true, false)), (String ((Ascii (false, true, true,
      true, false, true, true, false)), (String ((Ascii (false, true, true,
      false, false, true, true, false)), (String ((Ascii (true, false, false,
      true, false, true, true, false)), (String ((Ascii (true, true, true,
      false, false, true, true, false)), (String ((Ascii (false, false,
      false, false, false, true, false, false)), (String ((Ascii (true, true,
      false, false, true, true, true, false)), (String ((Ascii (true, false,
      false, true, false, true, true, false)), (String ((Ascii (false, true,
      false, true, true, true, true, false)), (String ((Ascii (true, false,
      true, false, false, true, true, false)),
      EmptyString)))))))))))))))))))))))))))))))))))))))))))))))))))))))))))))))))
    (fun _ ->
    bind
      (guard (forallb (fun r -> is_in_range r Z0 m) w1) (String ((Ascii
        (true, false, false, false, false, false, true, false)), (String
        ((Ascii (false, false, true, true, false, true, true, false)),
        (String ((Ascii (true, true, true, false, false, true, true, false)),
        (String ((Ascii (false, false, false, false, false, true, false,
        false)), (String ((Ascii (false, true, false, false, true, true,
        false, false)), (String ((Ascii (false, false, false, true, true,
        true, false, false)), (String ((Ascii (false, true, false, true,
        true, true, false, false)), (String ((Ascii (false, false, false,
        false, false, true, false, false)), (String ((Ascii (true, true,
        true, false, true, true, true, false)), (String ((Ascii (true, false,
        false, false, true, true, false, false)), (String ((Ascii (false,
        false, false, false, false, true, false, false)), (String ((Ascii
        (true, true, true, true, false, true, true, false)), (String ((Ascii
        (true, false, true, false, true, true, true, false)), (String ((Ascii
        (false, false, true, false, true, true, true, false)), (String
        ((Ascii (false, false, false, false, false, true, false, false)),
        (String ((Ascii (true, true, true, true, false, true, true, false)),
        (String ((Ascii (false, true, true, false, false, true, true,
        false)), (String ((Ascii (false, false, false, false, false, true,
        false, false)), (String ((Ascii (false, true, false, false, true,
        true, true, false)), (String ((Ascii (true, false, false, false,
        false, true, true, false)), (String ((Ascii (false, true, true, true,
        false, true, true, false)), (String ((Ascii (true, true, true, false,
        false, true, true, false)), (String ((Ascii (true, false, true,
        false, false, true, true, false)),
        EmptyString))))))))))))))))))))))))))))))))))))))))))))))) (fun _ ->
      let step0 = Z.mul (Zpos (XO (XO (XO (XO (XO XH)))))) (bitlen m) in
      bind (mapM (fun p0 -> simple_bit_pack p0 m step0) w1) (fun b -> Ok
        (concat b))))

(** val with_fuel : (nat -> 'a1 res) -> nat list -> 'a1 res **)

let rec with_fuel f = function
| [] -> OutOfFuel
| n0 :: r -> (match f n0 with
              | OutOfFuel -> with_fuel f r
              | x -> x)

(** val sib_find : z -> bytes -> (z * bytes) res **)

let rec sib_find i = function
| [] -> OutOfFuel
| j :: r -> if Z.ltb i j then sib_find i r else Ok (j, r)

(** val sib_step :
    bool -> z -> bytes -> (z list * bytes) -> z -> (z list * bytes) res **)

let sib_step ctest tau h8 st i =
  let (c, s) = st in
  bind
    (if ctest
     then Ok ((Z.modulo i (Zpos (XO (XO (XO (XO (XO (XO (XO (XO XH)))))))))),
            s)
     else sib_find i s) (fun x ->
    let (j, s') = x in
    bind (get_byte c j) (fun cj ->
      bind
        (guard (Z.ltb i (zlen c)) (String ((Ascii (true, false, false, true,
          false, true, true, false)), (String ((Ascii (false, true, true,
          true, false, true, true, false)), (String ((Ascii (false, false,
          true, false, false, true, true, false)), (String ((Ascii (true,
          false, true, false, false, true, true, false)), (String ((Ascii
          (false, false, false, true, true, true, true, false)), (String
          ((Ascii (false, false, false, false, false, true, false, false)),
          (String ((Ascii (true, true, true, true, false, true, true,
          false)), (String ((Ascii (true, false, true, false, true, true,
          true, false)), (String ((Ascii (false, false, true, false, true,
          true, true, false)), (String ((Ascii (false, false, false, false,
          false, true, false, false)), (String ((Ascii (true, true, true,
          true, false, true, true, false)), (String ((Ascii (false, true,
          true, false, false, true, true, false)), (String ((Ascii (false,
          false, false, false, false, true, false, false)), (String ((Ascii
          (false, true, false, false, false, true, true, false)), (String
          ((Ascii (true, true, true, true, false, true, true, false)),
          (String ((Ascii (true, false, true, false, true, true, true,
          false)), (String ((Ascii (false, true, true, true, false, true,
          true, false)), (String ((Ascii (false, false, true, false, false,
          true, true, false)), (String ((Ascii (true, true, false, false,
          true, true, true, false)),
          EmptyString))))))))))))))))))))))))))))))))))))))) (fun _ ->
        let c1 = zupd c i cj in
        let index =
          Z.sub (Z.add i tau) (Zpos (XO (XO (XO (XO (XO (XO (XO (XO
            XH)))))))))
        in
        bind (get_byte h8 (Z.div index (Zpos (XO (XO (XO XH))))))
          (fun bite ->
          let shifted = shr bite (Z.coq_land index (Zpos (XI (XI XH)))) in
          bind (mul32 (Zpos (XO XH)) (Z.coq_land shifted (Zpos XH)))
            (fun v ->
            bind (sub32 (Zpos XH) v) (fun v0 -> Ok ((zupd c1 j v0), s')))))))

(** val sample_in_ball_from : bool -> z -> bytes -> z list res **)

let sample_in_ball_from ctest tau stream =
  bind
    (guard (Z.leb Z0 tau) (String ((Ascii (true, false, false, false, false,
      false, true, false)), (String ((Ascii (false, false, true, true, false,
      true, true, false)), (String ((Ascii (true, true, true, false, false,
      true, true, false)), (String ((Ascii (false, false, false, false,
      false, true, false, false)), (String ((Ascii (false, true, false,
      false, true, true, false, false)), (String ((Ascii (true, false, false,
      true, true, true, false, false)), (String ((Ascii (false, true, false,
      true, true, true, false, false)), (String ((Ascii (false, false, false,
      false, false, true, false, false)), (String ((Ascii (false, false,
      true, false, true, true, true, false)), (String ((Ascii (false, true,
      false, false, true, true, true, false)), (String ((Ascii (true, false,
      false, true, true, true, true, false)), (String ((Ascii (true, true,
      true, true, true, false, true, false)), (String ((Ascii (false, true,
      true, false, false, true, true, false)), (String ((Ascii (false, true,
      false, false, true, true, true, false)), (String ((Ascii (true, true,
      true, true, false, true, true, false)), (String ((Ascii (true, false,
      true, true, false, true, true, false)), (String ((Ascii (false, false,
      false, false, false, true, false, false)), (String ((Ascii (false,
      true, true, false, false, true, true, false)), (String ((Ascii (true,
      false, false, false, false, true, true, false)), (String ((Ascii (true,
      false, false, true, false, true, true, false)), (String ((Ascii (false,
      false, true, true, false, true, true, false)),
      EmptyString))))))))))))))))))))))))))))))))))))))))))) (fun _ ->
    bind
      (guard (Z.leb tau (Zpos (XO (XO (XO (XO (XO (XO (XO (XO XH))))))))))
        (String ((Ascii (true, false, true, false, true, true, true, false)),
        (String ((Ascii (true, true, false, false, true, true, true, false)),
        (String ((Ascii (true, false, false, true, false, true, true,
        false)), (String ((Ascii (false, true, false, true, true, true, true,
        false)), (String ((Ascii (true, false, true, false, false, true,
        true, false)), (String ((Ascii (false, false, false, false, false,
        true, false, false)), (String ((Ascii (true, true, false, false,
        true, true, true, false)), (String ((Ascii (true, false, true, false,
        true, true, true, false)), (String ((Ascii (false, true, false,
        false, false, true, true, false)), (String ((Ascii (false, false,
        true, false, true, true, true, false)), (String ((Ascii (false, true,
        false, false, true, true, true, false)), (String ((Ascii (true,
        false, false, false, false, true, true, false)), (String ((Ascii
        (true, true, false, false, false, true, true, false)), (String
        ((Ascii (false, false, true, false, true, true, true, false)),
        (String ((Ascii (false, false, false, false, false, true, false,
        false)), (String ((Ascii (true, true, true, true, false, true, true,
        false)), (String ((Ascii (false, true, true, false, true, true, true,
        false)), (String ((Ascii (true, false, true, false, false, true,
        true, false)), (String ((Ascii (false, true, false, false, true,
        true, true, false)), (String ((Ascii (false, true, true, false,
        false, true, true, false)), (String ((Ascii (false, false, true,
        true, false, true, true, false)), (String ((Ascii (true, true, true,
        true, false, true, true, false)), (String ((Ascii (true, true, true,
        false, true, true, true, false)),
        EmptyString))))))))))))))))))))))))))))))))))))))))))))))) (fun _ ->
      let h8 = ztake (Zpos (XO (XO (XO XH)))) stream in
      bind
        (if Z.ltb (zlen stream) (Zpos (XO (XO (XO XH))))
         then OutOfFuel
         else Ok ()) (fun _ ->
        bind
          (foldM (sib_step ctest tau h8)
            (map (fun d0 ->
              Z.add
                (Z.sub (Zpos (XO (XO (XO (XO (XO (XO (XO (XO XH))))))))) tau)
                (Z.of_nat d0)) (seq O (Z.to_nat tau)))
            ((zeros (S (S (S (S (S (S (S (S (S (S (S (S (S (S (S (S (S (S (S
               (S (S (S (S (S (S (S (S (S (S (S (S (S (S (S (S (S (S (S (S (S
               (S (S (S (S (S (S (S (S (S (S (S (S (S (S (S (S (S (S (S (S (S
               (S (S (S (S (S (S (S (S (S (S (S (S (S (S (S (S (S (S (S (S (S
               (S (S (S (S (S (S (S (S (S (S (S (S (S (S (S (S (S (S (S (S (S
               (S (S (S (S (S (S (S (S (S (S (S (S (S (S (S (S (S (S (S (S (S
               (S (S (S (S (S (S (S (S (S (S (S (S (S (S (S (S (S (S (S (S (S
               (S (S (S (S (S (S (S (S (S (S (S (S (S (S (S (S (S (S (S (S (S
               (S (S (S (S (S (S (S (S (S (S (S (S (S (S (S (S (S (S (S (S (S
               (S (S (S (S (S (S (S (S (S (S (S (S (S (S (S (S (S (S (S (S (S
               (S (S (S (S (S (S (S (S (S (S (S (S (S (S (S (S (S (S (S (S (S
               (S (S (S (S (S (S (S (S (S (S (S (S (S (S (S (S (S (S (S (S (S
               (S (S (S (S (S (S
               O))))))))))))))))))))))))))))))))))))))))))))))))))))))))))))))))))))))))))))))))))))))))))))))))))))))))))))))))))))))))))))))))))))))))))))))))))))))))))))))))))))))))))))))))))))))))))))))))))))))))))))))))))))))))))))))))))))))))))))))))))))))))))))))))),
            (zdrop (Zpos (XO (XO (XO XH)))) stream))) (fun x ->
          let (c, _) = x in
          bind
            (guard (Z.eqb (zlen (filter (fun e -> negb (Z.eqb e Z0)) c)) tau)
              (String ((Ascii (true, false, false, false, false, false, true,
              false)), (String ((Ascii (false, false, true, true, false,
              true, true, false)), (String ((Ascii (true, true, true, false,
              false, true, true, false)), (String ((Ascii (false, false,
              false, false, false, true, false, false)), (String ((Ascii
              (false, true, false, false, true, true, false, false)), (String
              ((Ascii (true, false, false, true, true, true, false, false)),
              (String ((Ascii (false, true, false, true, true, true, false,
              false)), (String ((Ascii (false, false, false, false, false,
              true, false, false)), (String ((Ascii (false, true, false,
              false, false, true, true, false)), (String ((Ascii (true,
              false, false, false, false, true, true, false)), (String
              ((Ascii (false, false, true, false, false, true, true, false)),
              (String ((Ascii (false, false, false, false, false, true,
              false, false)), (String ((Ascii (false, false, false, true,
              false, true, true, false)), (String ((Ascii (true, false,
              false, false, false, true, true, false)), (String ((Ascii
              (true, false, true, true, false, true, true, false)), (String
              ((Ascii (true, false, true, true, false, true, true, false)),
              (String ((Ascii (true, false, false, true, false, true, true,
              false)), (String ((Ascii (false, true, true, true, false, true,
              true, false)), (String ((Ascii (true, true, true, false, false,
              true, true, false)), (String ((Ascii (false, false, false,
              false, false, true, false, false)), (String ((Ascii (true,
              true, true, false, true, true, true, false)), (String ((Ascii
              (true, false, true, false, false, true, true, false)), (String
              ((Ascii (true, false, false, true, false, true, true, false)),
              (String ((Ascii (true, true, true, false, false, true, true,
              false)), (String ((Ascii (false, false, false, true, false,
              true, true, false)), (String ((Ascii (false, false, true,
              false, true, true, true, false)), (String ((Ascii (false,
              false, false, false, false, true, false, false)), (String
              ((Ascii (false, false, false, true, false, true, false,
              false)), (String ((Ascii (true, false, false, false, false,
              true, true, false)), (String ((Ascii (true, false, false, true,
              false, true, false, false)),
              EmptyString)))))))))))))))))))))))))))))))))))))))))))))))))))))))))))))
            (fun _ ->
            bind
              (guard
                (Z.eqb (sumZ (map (fun e -> Z.coq_land e (Zpos XH)) c)) tau)
                (String ((Ascii (true, false, false, false, false, false,
                true, false)), (String ((Ascii (false, false, true, true,
                false, true, true, false)), (String ((Ascii (true, true,
                true, false, false, true, true, false)), (String ((Ascii
                (false, false, false, false, false, true, false, false)),
                (String ((Ascii (false, true, false, false, true, true,
                false, false)), (String ((Ascii (true, false, false, true,
                true, true, false, false)), (String ((Ascii (false, true,
                false, true, true, true, false, false)), (String ((Ascii
                (false, false, false, false, false, true, false, false)),
                (String ((Ascii (false, true, false, false, false, true,
                true, false)), (String ((Ascii (true, false, false, false,
                false, true, true, false)), (String ((Ascii (false, false,
                true, false, false, true, true, false)), (String ((Ascii
                (false, false, false, false, false, true, false, false)),
                (String ((Ascii (false, false, false, true, false, true,
                true, false)), (String ((Ascii (true, false, false, false,
                false, true, true, false)), (String ((Ascii (true, false,
                true, true, false, true, true, false)), (String ((Ascii
                (true, false, true, true, false, true, true, false)), (String
                ((Ascii (true, false, false, true, false, true, true,
                false)), (String ((Ascii (false, true, true, true, false,
                true, true, false)), (String ((Ascii (true, true, true,
                false, false, true, true, false)), (String ((Ascii (false,
                false, false, false, false, true, false, false)), (String
                ((Ascii (true, true, true, false, true, true, true, false)),
                (String ((Ascii (true, false, true, false, false, true, true,
                false)), (String ((Ascii (true, false, false, true, false,
                true, true, false)), (String ((Ascii (true, true, true,
                false, false, true, true, false)), (String ((Ascii (false,
                false, false, true, false, true, true, false)), (String
                ((Ascii (false, false, true, false, true, true, true,
                false)), (String ((Ascii (false, false, false, false, false,
                true, false, false)), (String ((Ascii (false, false, false,
                true, false, true, false, false)), (String ((Ascii (false,
                true, false, false, false, true, true, false)), (String
                ((Ascii (true, false, false, true, false, true, false,
                false)),
                EmptyString)))))))))))))))))))))))))))))))))))))))))))))))))))))))))))))
              (fun _ -> Ok c))))))

(** val sample_in_ball : hashes -> bool -> z -> bytes -> z list res **)

let sample_in_ball h ctest tau rho =
  with_fuel (fun n0 -> sample_in_ball_from ctest tau (h.h_shake256 rho n0))
    (map Z.to_nat ((Zpos (XO (XO (XO (XI (XO (XO (XO XH)))))))) :: ((Zpos (XO
      (XO (XO (XO (XI (XO (XO (XO XH))))))))) :: ((Zpos (XO (XO (XO (XO (XI
      (XO (XI (XO (XI (XO XH))))))))))) :: ((Zpos (XO (XO (XO (XO (XO (XI (XO
      (XO (XI (XO (XI (XO (XI XH)))))))))))))) :: [])))))

(** val rej_ntt_loop : bool -> bytes -> nat -> z list -> z list res **)

let rec rej_ntt_loop ctest s need acc =
  match need with
  | O -> Ok (rev acc)
  | S need' ->
    (match s with
     | [] -> OutOfFuel
     | b0 :: l ->
       (match l with
        | [] -> OutOfFuel
        | b1 :: l0 ->
          (match l0 with
           | [] -> OutOfFuel
           | b2 :: r ->
             (match coeff_from_three_bytes ctest b0 b1 b2 with
              | Ok z0 -> rej_ntt_loop ctest r need' (z0 :: acc)
              | Err _ -> rej_ntt_loop ctest r need acc
              | Panic p -> Panic p
              | OutOfFuel -> OutOfFuel))))

(** val rej_ntt_poly : hashes -> bool -> bytes -> z list res **)

let rej_ntt_poly h ctest seed =
  bind
    (guard (Z.eqb (zlen seed) (Zpos (XO (XI (XO (XO (XO XH))))))) (String
      ((Ascii (true, false, false, false, false, false, true, false)),
      (String ((Ascii (false, false, true, true, false, true, true, false)),
      (String ((Ascii (true, true, true, false, false, true, true, false)),
      (String ((Ascii (false, false, false, false, false, true, false,
      false)), (String ((Ascii (true, true, false, false, true, true, false,
      false)), (String ((Ascii (false, false, false, false, true, true,
      false, false)), (String ((Ascii (false, true, false, true, true, true,
      false, false)), (String ((Ascii (false, false, false, false, false,
      true, false, false)), (String ((Ascii (false, true, false, false,
      false, true, true, false)), (String ((Ascii (true, false, false, false,
      false, true, true, false)), (String ((Ascii (false, false, true, false,
      false, true, true, false)), (String ((Ascii (false, false, false,
      false, false, true, false, false)), (String ((Ascii (false, true,
      false, false, true, true, true, false)), (String ((Ascii (false, false,
      false, true, false, true, true, false)), (String ((Ascii (true, true,
      true, true, false, true, true, false)), (String ((Ascii (false, false,
      false, false, false, true, false, false)), (String ((Ascii (true, true,
      false, false, true, true, true, false)), (String ((Ascii (true, false,
      false, true, false, true, true, false)), (String ((Ascii (false, true,
      false, true, true, true, true, false)), (String ((Ascii (true, false,
      true, false, false, true, true, false)),
      EmptyString))))))))))))))))))))))))))))))))))))))))) (fun _ ->
    with_fuel (fun n0 ->
      rej_ntt_loop ctest (h.h_shake128 seed n0) (S (S (S (S (S (S (S (S (S (S
        (S (S (S (S (S (S (S (S (S (S (S (S (S (S (S (S (S (S (S (S (S (S (S
        (S (S (S (S (S (S (S (S (S (S (S (S (S (S (S (S (S (S (S (S (S (S (S
        (S (S (S (S (S (S (S (S (S (S (S (S (S (S (S (S (S (S (S (S (S (S (S
        (S (S (S (S (S (S (S (S (S (S (S (S (S (S (S (S (S (S (S (S (S (S (S
        (S (S (S (S (S (S (S (S (S (S (S (S (S (S (S (S (S (S (S (S (S (S (S
        (S (S (S (S (S (S (S (S (S (S (S (S (S (S (S (S (S (S (S (S (S (S (S
        (S (S (S (S (S (S (S (S (S (S (S (S (S (S (S (S (S (S (S (S (S (S (S
        (S (S (S (S (S (S (S (S (S (S (S (S (S (S (S (S (S (S (S (S (S (S (S
        (S (S (S (S (S (S (S (S (S (S (S (S (S (S (S (S (S (S (S (S (S (S (S
        (S (S (S (S (S (S (S (S (S (S (S (S (S (S (S (S (S (S (S (S (S (S (S
        (S (S (S (S (S (S (S (S (S (S (S (S (S (S (S (S
        O))))))))))))))))))))))))))))))))))))))))))))))))))))))))))))))))))))))))))))))))))))))))))))))))))))))))))))))))))))))))))))))))))))))))))))))))))))))))))))))))))))))))))))))))))))))))))))))))))))))))))))))))))))))))))))))))))))))))))))))))))))))))))))))))
        [])
      (map Z.to_nat ((Zpos (XO (XO (XO (XI (XO (XO (XI (XO (XI
        XH)))))))))) :: ((Zpos (XO (XO (XO (XO (XI (XI (XI (XI (XI
        XH)))))))))) :: ((Zpos (XO (XO (XO (XO (XI (XO (XO (XI (XO (XI
        XH))))))))))) :: ((Zpos (XO (XO (XO (XO (XO (XI (XO (XI (XI (XO (XO
        (XO (XO (XO XH))))))))))))))) :: []))))))

(** val rbp_take : nat -> z list -> z res -> (nat * z list) res **)

let rbp_take need acc = function
| Ok v -> (match need with
           | O -> Ok (need, acc)
           | S n' -> Ok (n', (v :: acc)))
| Err _ -> Ok (need, acc)
| Panic p -> Panic p
| OutOfFuel -> OutOfFuel

(** val rej_bounded_loop :
    bool -> z -> bytes -> nat -> z list -> z list res **)

let rec rej_bounded_loop ctest eta s need acc =
  match need with
  | O -> Ok (rev acc)
  | S _ ->
    (match s with
     | [] -> OutOfFuel
     | z0 :: r ->
       let z1 =
         coeff_from_half_byte ctest eta
           (Z.coq_land z0 (Zpos (XI (XI (XI XH)))))
       in
       let z2 = coeff_from_half_byte ctest eta (shr z0 (Zpos (XO (XO XH)))) in
       (match z1 with
        | Ok _ ->
          (match z2 with
           | Ok _ ->
             bind (rbp_take need acc z1) (fun x ->
               let (need1, acc1) = x in
               bind (rbp_take need1 acc1 z2) (fun x0 ->
                 let (need2, acc2) = x0 in
                 rej_bounded_loop ctest eta r need2 acc2))
           | Err _ ->
             bind (rbp_take need acc z1) (fun x ->
               let (need1, acc1) = x in
               bind (rbp_take need1 acc1 z2) (fun x0 ->
                 let (need2, acc2) = x0 in
                 rej_bounded_loop ctest eta r need2 acc2))
           | Panic p -> Panic p
           | OutOfFuel ->
             bind (rbp_take need acc z1) (fun x ->
               let (need1, acc1) = x in
               bind (rbp_take need1 acc1 z2) (fun x0 ->
                 let (need2, acc2) = x0 in
                 rej_bounded_loop ctest eta r need2 acc2)))
        | Err _ ->
          (match z2 with
           | Ok _ ->
             bind (rbp_take need acc z1) (fun x ->
               let (need1, acc1) = x in
               bind (rbp_take need1 acc1 z2) (fun x0 ->
                 let (need2, acc2) = x0 in
                 rej_bounded_loop ctest eta r need2 acc2))
           | Err _ ->
             bind (rbp_take need acc z1) (fun x ->
               let (need1, acc1) = x in
               bind (rbp_take need1 acc1 z2) (fun x0 ->
                 let (need2, acc2) = x0 in
                 rej_bounded_loop ctest eta r need2 acc2))
           | Panic p -> Panic p
           | OutOfFuel ->
             bind (rbp_take need acc z1) (fun x ->
               let (need1, acc1) = x in
               bind (rbp_take need1 acc1 z2) (fun x0 ->
                 let (need2, acc2) = x0 in
                 rej_bounded_loop ctest eta r need2 acc2)))
        | Panic p -> Panic p
        | OutOfFuel ->
          (match z2 with
           | Ok _ ->
             bind (rbp_take need acc z1) (fun x ->
               let (need1, acc1) = x in
               bind (rbp_take need1 acc1 z2) (fun x0 ->
                 let (need2, acc2) = x0 in
                 rej_bounded_loop ctest eta r need2 acc2))
           | Err _ ->
             bind (rbp_take need acc z1) (fun x ->
               let (need1, acc1) = x in
               bind (rbp_take need1 acc1 z2) (fun x0 ->
                 let (need2, acc2) = x0 in
                 rej_bounded_loop ctest eta r need2 acc2))
           | Panic p -> Panic p
           | OutOfFuel ->
             bind (rbp_take need acc z1) (fun x ->
               let (need1, acc1) = x in
               bind (rbp_take need1 acc1 z2) (fun x0 ->
                 let (need2, acc2) = x0 in
                 rej_bounded_loop ctest eta r need2 acc2)))))

(** val rej_bounded_poly : hashes -> bool -> z -> bytes -> z list res **)

let rej_bounded_poly h ctest eta seed =
  bind
    (guard (Z.eqb (zlen seed) (Zpos (XO (XI (XO (XO (XO (XO XH))))))))
      (String ((Ascii (true, false, false, false, false, false, true,
      false)), (String ((Ascii (false, false, true, true, false, true, true,
      false)), (String ((Ascii (true, true, true, false, false, true, true,
      false)), (String ((Ascii (false, false, false, false, false, true,
      false, false)), (String ((Ascii (true, true, false, false, true, true,
      false, false)), (String ((Ascii (true, false, false, false, true, true,
      false, false)), (String ((Ascii (false, true, false, true, true, true,
      false, false)), (String ((Ascii (false, false, false, false, false,
      true, false, false)), (String ((Ascii (false, true, false, false,
      false, true, true, false)), (String ((Ascii (true, false, false, false,
      false, true, true, false)), (String ((Ascii (false, false, true, false,
      false, true, true, false)), (String ((Ascii (false, false, false,
      false, false, true, false, false)), (String ((Ascii (false, true,
      false, false, true, true, true, false)), (String ((Ascii (false, false,
      false, true, false, true, true, false)), (String ((Ascii (true, true,
      true, true, false, true, true, false)), (String ((Ascii (false, false,
      false, false, false, true, false, false)), (String ((Ascii (true, true,
      false, false, true, true, true, false)), (String ((Ascii (true, false,
      false, true, false, true, true, false)), (String ((Ascii (false, true,
      false, true, true, true, true, false)), (String ((Ascii (true, false,
      true, false, false, true, true, false)),
      EmptyString))))))))))))))))))))))))))))))))))))))))) (fun _ ->
    with_fuel (fun n0 ->
      rej_bounded_loop ctest eta (h.h_shake256 seed n0) (S (S (S (S (S (S (S
        (S (S (S (S (S (S (S (S (S (S (S (S (S (S (S (S (S (S (S (S (S (S (S
        (S (S (S (S (S (S (S (S (S (S (S (S (S (S (S (S (S (S (S (S (S (S (S
        (S (S (S (S (S (S (S (S (S (S (S (S (S (S (S (S (S (S (S (S (S (S (S
        (S (S (S (S (S (S (S (S (S (S (S (S (S (S (S (S (S (S (S (S (S (S (S
        (S (S (S (S (S (S (S (S (S (S (S (S (S (S (S (S (S (S (S (S (S (S (S
        (S (S (S (S (S (S (S (S (S (S (S (S (S (S (S (S (S (S (S (S (S (S (S
        (S (S (S (S (S (S (S (S (S (S (S (S (S (S (S (S (S (S (S (S (S (S (S
        (S (S (S (S (S (S (S (S (S (S (S (S (S (S (S (S (S (S (S (S (S (S (S
        (S (S (S (S (S (S (S (S (S (S (S (S (S (S (S (S (S (S (S (S (S (S (S
        (S (S (S (S (S (S (S (S (S (S (S (S (S (S (S (S (S (S (S (S (S (S (S
        (S (S (S (S (S (S (S (S (S (S (S (S (S (S (S (S (S (S (S
        O))))))))))))))))))))))))))))))))))))))))))))))))))))))))))))))))))))))))))))))))))))))))))))))))))))))))))))))))))))))))))))))))))))))))))))))))))))))))))))))))))))))))))))))))))))))))))))))))))))))))))))))))))))))))))))))))))))))))))))))))))))))))))))))))
        [])
      (map Z.to_nat ((Zpos (XO (XO (XO (XO (XI (XO (XO (XO
        XH))))))))) :: ((Zpos (XO (XO (XO (XI (XI (XO (XO (XI
        XH))))))))) :: ((Zpos (XO (XO (XO (XO (XI (XI (XO (XO (XI
        XH)))))))))) :: ((Zpos (XO (XO (XO (XO (XO (XI (XI (XI (XI (XI (XI
        (XI XH))))))))))))) :: []))))))

(** val expand_a :
    hashes -> bool -> params -> bytes -> z list list list res **)

let expand_a h ctest p rho =
  mapM (fun r ->
    mapM (fun s ->
      rej_ntt_poly h ctest
        (app rho
          (app
            ((Z.modulo (Z.of_nat s) (Zpos (XO (XO (XO (XO (XO (XO (XO (XO
               XH)))))))))) :: [])
            ((Z.modulo (Z.of_nat r) (Zpos (XO (XO (XO (XO (XO (XO (XO (XO
               XH)))))))))) :: [])))) (seq O p.p_l)) (seq O p.p_k)

(** val expand_s :
    hashes -> bool -> params -> bytes -> (z list list * z list list) res **)

let expand_s h ctest p rho =
  let eta = p.p_eta in
  bind
    (mapM (fun r ->
      rej_bounded_poly h ctest eta
        (app rho
          (app
            ((Z.modulo (Z.of_nat r) (Zpos (XO (XO (XO (XO (XO (XO (XO (XO
               XH)))))))))) :: []) (Z0 :: [])))) (seq O p.p_l)) (fun s1 ->
    bind
      (mapM (fun r ->
        rej_bounded_poly h ctest eta
          (app rho
            (app
              ((Z.modulo (Z.of_nat (add r p.p_l)) (Zpos (XO (XO (XO (XO (XO
                 (XO (XO (XO XH)))))))))) :: []) (Z0 :: [])))) (seq O p.p_k))
      (fun s2 ->
      bind
        (guard (forallb (fun r -> is_in_range r eta eta) s1) (String ((Ascii
          (true, false, false, false, false, false, true, false)), (String
          ((Ascii (false, false, true, true, false, true, true, false)),
          (String ((Ascii (true, true, true, false, false, true, true,
          false)), (String ((Ascii (false, false, false, false, false, true,
          false, false)), (String ((Ascii (true, true, false, false, true,
          true, false, false)), (String ((Ascii (true, true, false, false,
          true, true, false, false)), (String ((Ascii (false, true, false,
          true, true, true, false, false)), (String ((Ascii (false, false,
          false, false, false, true, false, false)), (String ((Ascii (true,
          true, false, false, true, true, true, false)), (String ((Ascii
          (true, false, false, false, true, true, false, false)), (String
          ((Ascii (false, false, false, false, false, true, false, false)),
          (String ((Ascii (true, true, true, true, false, true, true,
          false)), (String ((Ascii (true, false, true, false, true, true,
          true, false)), (String ((Ascii (false, false, true, false, true,
          true, true, false)), (String ((Ascii (false, false, false, false,
          false, true, false, false)), (String ((Ascii (true, true, true,
          true, false, true, true, false)), (String ((Ascii (false, true,
          true, false, false, true, true, false)), (String ((Ascii (false,
          false, false, false, false, true, false, false)), (String ((Ascii
          (false, true, false, false, true, true, true, false)), (String
          ((Ascii (true, false, false, false, false, true, true, false)),
          (String ((Ascii (false, true, true, true, false, true, true,
          false)), (String ((Ascii (true, true, true, false, false, true,
          true, false)), (String ((Ascii (true, false, true, false, false,
          true, true, false)),
          EmptyString)))))))))))))))))))))))))))))))))))))))))))))))
        (fun _ ->
        bind
          (guard (forallb (fun r -> is_in_range r eta eta) s2) (String
            ((Ascii (true, false, false, false, false, false, true, false)),
            (String ((Ascii (false, false, true, true, false, true, true,
            false)), (String ((Ascii (true, true, true, false, false, true,
            true, false)), (String ((Ascii (false, false, false, false,
            false, true, false, false)), (String ((Ascii (true, true, false,
            false, true, true, false, false)), (String ((Ascii (true, true,
            false, false, true, true, false, false)), (String ((Ascii (false,
            true, false, true, true, true, false, false)), (String ((Ascii
            (false, false, false, false, false, true, false, false)), (String
            ((Ascii (true, true, false, false, true, true, true, false)),
            (String ((Ascii (false, true, false, false, true, true, false,
            false)), (String ((Ascii (false, false, false, false, false,
            true, false, false)), (String ((Ascii (true, true, true, true,
            false, true, true, false)), (String ((Ascii (true, false, true,
            false, true, true, true, false)), (String ((Ascii (false, false,
            true, false, true, true, true, false)), (String ((Ascii (false,
            false, false, false, false, true, false, false)), (String ((Ascii
            (true, true, true, true, false, true, true, false)), (String
            ((Ascii (false, true, true, false, false, true, true, false)),
            (String ((Ascii (false, false, false, false, false, true, false,
            false)), (String ((Ascii (false, true, false, false, true, true,
            true, false)), (String ((Ascii (true, false, false, false, false,
            true, true, false)), (String ((Ascii (false, true, true, true,
            false, true, true, false)), (String ((Ascii (true, true, true,
            false, false, true, true, false)), (String ((Ascii (true, false,
            true, false, false, true, true, false)),
            EmptyString)))))))))))))))))))))))))))))))))))))))))))))))
          (fun _ -> Ok (s1, s2)))))

(** val le2 : z -> bytes **)

let le2 n0 =
  (Z.modulo n0 (Zpos (XO (XO (XO (XO (XO (XO (XO (XO XH)))))))))) :: (
    (Z.modulo (Z.div n0 (Zpos (XO (XO (XO (XO (XO (XO (XO (XO XH))))))))))
      (Zpos (XO (XO (XO (XO (XO (XO (XO (XO XH)))))))))) :: [])

(** val expand_mask : hashes -> params -> bytes -> z -> z list list res **)

let expand_mask h p rho mu =
  let g1 = p.p_gamma1 in
  let c = Z.add (Zpos XH) (bitlen (Z.sub g1 (Zpos XH))) in
  bind
    (guard
      ((||) (Z.eqb c (Zpos (XO (XI (XO (XO XH))))))
        (Z.eqb c (Zpos (XO (XO (XI (XO XH))))))) (String ((Ascii (true,
      false, false, false, false, false, true, false)), (String ((Ascii
      (false, false, true, true, false, true, true, false)), (String ((Ascii
      (true, true, true, false, false, true, true, false)), (String ((Ascii
      (false, false, false, false, false, true, false, false)), (String
      ((Ascii (true, true, false, false, true, true, false, false)), (String
      ((Ascii (false, false, true, false, true, true, false, false)), (String
      ((Ascii (false, true, false, true, true, true, false, false)), (String
      ((Ascii (false, false, false, false, false, true, false, false)),
      (String ((Ascii (true, false, false, true, false, true, true, false)),
      (String ((Ascii (false, false, true, true, false, true, true, false)),
      (String ((Ascii (false, false, true, true, false, true, true, false)),
      (String ((Ascii (true, false, true, false, false, true, true, false)),
      (String ((Ascii (true, true, true, false, false, true, true, false)),
      (String ((Ascii (true, false, false, false, false, true, true, false)),
      (String ((Ascii (false, false, true, true, false, true, true, false)),
      (String ((Ascii (false, false, false, false, false, true, false,
      false)), (String ((Ascii (true, true, false, false, false, true, true,
      false)), EmptyString))))))))))))))))))))))))))))))))))) (fun _ ->
    bind
      (guard
        (Z.ltb (lz p) (Zpos (XO (XO (XO (XO (XO (XO (XO (XO (XO (XO (XO (XO
          (XO (XO (XO (XO XH)))))))))))))))))) (String ((Ascii (true, false,
        false, false, false, false, true, false)), (String ((Ascii (false,
        false, true, true, false, true, true, false)), (String ((Ascii (true,
        true, true, false, false, true, true, false)), (String ((Ascii
        (false, false, false, false, false, true, false, false)), (String
        ((Ascii (true, true, false, false, true, true, false, false)),
        (String ((Ascii (false, false, true, false, true, true, false,
        false)), (String ((Ascii (false, true, false, true, true, true,
        false, false)), (String ((Ascii (false, false, false, false, false,
        true, false, false)), (String ((Ascii (false, false, true, false,
        true, true, true, false)), (String ((Ascii (false, true, false,
        false, true, true, true, false)), (String ((Ascii (true, false,
        false, true, true, true, true, false)), (String ((Ascii (true, true,
        true, true, true, false, true, false)), (String ((Ascii (false, true,
        true, false, false, true, true, false)), (String ((Ascii (false,
        true, false, false, true, true, true, false)), (String ((Ascii (true,
        true, true, true, false, true, true, false)), (String ((Ascii (true,
        false, true, true, false, true, true, false)), (String ((Ascii (true,
        false, false, false, true, true, false, false)), (String ((Ascii
        (false, false, false, false, false, true, false, false)), (String
        ((Ascii (false, true, true, false, false, true, true, false)),
        (String ((Ascii (true, false, false, false, false, true, true,
        false)), (String ((Ascii (true, false, false, true, false, true,
        true, false)), (String ((Ascii (false, false, true, true, false,
        true, true, false)),
        EmptyString))))))))))))))))))))))))))))))))))))))))))))) (fun _ ->
      bind
        (mapM (fun r ->
          let n0 = Z.add mu (Z.of_nat r) in
          bind
            (guard
              (Z.ltb n0 (Zpos (XO (XO (XO (XO (XO (XO (XO (XO (XO (XO (XO (XO
                (XO (XO (XO (XO XH)))))))))))))))))) (String ((Ascii (true,
              false, true, false, true, true, true, false)), (String ((Ascii
              (true, false, false, false, true, true, false, false)), (String
              ((Ascii (false, true, true, false, true, true, false, false)),
              (String ((Ascii (false, false, false, false, false, true,
              false, false)), (String ((Ascii (true, false, false, false,
              false, true, true, false)), (String ((Ascii (false, false,
              true, false, false, true, true, false)), (String ((Ascii
              (false, false, true, false, false, true, true, false)), (String
              ((Ascii (false, false, false, false, false, true, false,
              false)), (String ((Ascii (true, true, true, true, false, true,
              true, false)), (String ((Ascii (false, true, true, false, true,
              true, true, false)), (String ((Ascii (true, false, true, false,
              false, true, true, false)), (String ((Ascii (false, true,
              false, false, true, true, true, false)), (String ((Ascii
              (false, true, true, false, false, true, true, false)), (String
              ((Ascii (false, false, true, true, false, true, true, false)),
              (String ((Ascii (true, true, true, true, false, true, true,
              false)), (String ((Ascii (true, true, true, false, true, true,
              true, false)), EmptyString)))))))))))))))))))))))))))))))))
            (fun _ ->
            let v =
              h.h_shake256 (app rho (le2 n0))
                (Z.to_nat (Z.mul (Zpos (XO (XO (XO (XO (XO XH)))))) c))
            in
            (match bit_unpack v (Z.sub g1 (Zpos XH)) g1 with
             | Err _ ->
               Panic (String ((Ascii (true, false, false, false, false,
                 false, true, false)), (String ((Ascii (false, false, true,
                 true, false, true, true, false)), (String ((Ascii (true,
                 true, true, false, false, true, true, false)), (String
                 ((Ascii (false, false, false, false, false, true, false,
                 false)), (String ((Ascii (true, true, false, false, true,
                 true, false, false)), (String ((Ascii (false, false, true,
                 false, true, true, false, false)), (String ((Ascii (false,
                 true, false, true, true, true, false, false)), (String
                 ((Ascii (false, false, false, false, false, true, false,
                 false)), (String ((Ascii (false, false, true, false, true,
                 true, true, false)), (String ((Ascii (false, true, false,
                 false, true, true, true, false)), (String ((Ascii (true,
                 false, false, true, true, true, true, false)), (String
                 ((Ascii (true, true, true, true, true, false, true, false)),
                 (String ((Ascii (false, true, true, false, false, true,
                 true, false)), (String ((Ascii (false, true, false, false,
                 true, true, true, false)), (String ((Ascii (true, true,
                 true, true, false, true, true, false)), (String ((Ascii
                 (true, false, true, true, false, true, true, false)),
                 (String ((Ascii (false, true, false, false, true, true,
                 false, false)), (String ((Ascii (false, false, false, false,
                 false, true, false, false)), (String ((Ascii (false, true,
                 true, false, false, true, true, false)), (String ((Ascii
                 (true, false, false, false, false, true, true, false)),
                 (String ((Ascii (true, false, false, true, false, true,
                 true, false)), (String ((Ascii (false, false, true, true,
                 false, true, true, false)),
                 EmptyString))))))))))))))))))))))))))))))))))))))))))))
             | x -> x))) (seq O p.p_l)) (fun y ->
        bind
          (guard (forallb (fun r -> is_in_range r (Z.sub g1 (Zpos XH)) g1) y)
            (String ((Ascii (true, false, false, false, false, false, true,
            false)), (String ((Ascii (false, false, true, true, false, true,
            true, false)), (String ((Ascii (true, true, true, false, false,
            true, true, false)), (String ((Ascii (false, false, false, false,
            false, true, false, false)), (String ((Ascii (true, true, false,
            false, true, true, false, false)), (String ((Ascii (false, false,
            true, false, true, true, false, false)), (String ((Ascii (false,
            true, false, true, true, true, false, false)), (String ((Ascii
            (false, false, false, false, false, true, false, false)), (String
            ((Ascii (true, true, false, false, true, true, true, false)),
            (String ((Ascii (false, false, false, false, false, true, false,
            false)), (String ((Ascii (true, true, false, false, false, true,
            true, false)), (String ((Ascii (true, true, true, true, false,
            true, true, false)), (String ((Ascii (true, false, true, false,
            false, true, true, false)), (String ((Ascii (false, true, true,
            false, false, true, true, false)), (String ((Ascii (false, true,
            true, false, false, true, true, false)), (String ((Ascii (false,
            false, false, false, false, true, false, false)), (String ((Ascii
            (true, true, true, true, false, true, true, false)), (String
            ((Ascii (true, false, true, false, true, true, true, false)),
            (String ((Ascii (false, false, true, false, true, true, true,
            false)), (String ((Ascii (false, false, false, false, false,
            true, false, false)), (String ((Ascii (true, true, true, true,
            false, true, true, false)), (String ((Ascii (false, true, true,
            false, false, true, true, false)), (String ((Ascii (false, false,
            false, false, false, true, false, false)), (String ((Ascii
            (false, true, false, false, true, true, true, false)), (String
            ((Ascii (true, false, false, false, false, true, true, false)),
            (String ((Ascii (false, true, true, true, false, true, true,
            false)), (String ((Ascii (true, true, true, false, false, true,
            true, false)), (String ((Ascii (true, false, true, false, false,
            true, true, false)),
            EmptyString)))))))))))))))))))))))))))))))))))))))))))))))))))))))))
          (fun _ -> Ok y))))

(** val hash_message : hashes -> bytes -> ph -> bytes * bytes **)

let hash_message h message ph0 =
  ((ph_oid ph0),
    (match ph_fn ph0 with
     | HF_sha256 ->
       ztake (ph_len ph0)
         (app (ztake (ph_written ph0) (h.h_sha256 message))
           (zeros (S (S (S (S (S (S (S (S (S (S (S (S (S (S (S (S (S (S (S (S
             (S (S (S (S (S (S (S (S (S (S (S (S (S (S (S (S (S (S (S (S (S
             (S (S (S (S (S (S (S (S (S (S (S (S (S (S (S (S (S (S (S (S (S
             (S (S
             O))))))))))))))))))))))))))))))))))))))))))))))))))))))))))))))))))
     | HF_sha512 ->
       ztake (ph_len ph0)
         (app (ztake (ph_written ph0) (h.h_sha512 message))
           (zeros (S (S (S (S (S (S (S (S (S (S (S (S (S (S (S (S (S (S (S (S
             (S (S (S (S (S (S (S (S (S (S (S (S (S (S (S (S (S (S (S (S (S
             (S (S (S (S (S (S (S (S (S (S (S (S (S (S (S (S (S (S (S (S (S
             (S (S
             O))))))))))))))))))))))))))))))))))))))))))))))))))))))))))))))))))
     | HF_shake128 ->
       ztake (ph_len ph0)
         (app (h.h_shake128 message (Z.to_nat (ph_written ph0)))
           (zeros (S (S (S (S (S (S (S (S (S (S (S (S (S (S (S (S (S (S (S (S
             (S (S (S (S (S (S (S (S (S (S (S (S (S (S (S (S (S (S (S (S (S
             (S (S (S (S (S (S (S (S (S (S (S (S (S (S (S (S (S (S (S (S (S
             (S (S
             O))))))))))))))))))))))))))))))))))))))))))))))))))))))))))))))))))))

type publicKey = { pk_rho : bytes; pk_tr : bytes;
                   pk_t1_d2_hat_mont : z list list }

type privateKey = { sk_rho : bytes; sk_cap_k : bytes; sk_tr : bytes;
                    sk_s_1_hat_mont : z list list;
                    sk_s_2_hat_mont : z list list;
                    sk_t_0_hat_mont : z list list }

type rng_reply =
| Fill of bytes
| Fail of bytes

type rng = rng_reply list

(** val try_fill : rng -> z -> bytes option * rng **)

let try_fill g n0 =
  match g with
  | [] -> (None, [])
  | r :: g' ->
    (match r with
     | Fill b -> ((if Z.eqb (zlen b) n0 then Some b else None), g')
     | Fail _ -> (None, g'))

(** val t1_precompute : z list list -> z list list res **)

let t1_precompute t1 =
  bind (ntt t1) (fun t1h ->
    bind (to_mont t1h) (fun t1hm ->
      bind (mapM (mapM (fun x -> mont_reduce (shl64 x d))) t1hm) to_mont))

(** val ntt_mont : z list list -> z list list res **)

let ntt_mont v =
  bind (ntt v) to_mont

(** val key_gen_internal :
    hashes -> bool -> params -> bytes -> (publicKey * privateKey) res **)

let key_gen_internal h =
  let h257 = h.h_shake256 in
  (fun ctest p xi ->
  let h2 =
    h257
      (app xi
        (app
          ((Z.modulo (kz p) (Zpos (XO (XO (XO (XO (XO (XO (XO (XO XH)))))))))) :: [])
          ((Z.modulo (lz p) (Zpos (XO (XO (XO (XO (XO (XO (XO (XO XH)))))))))) :: [])))
      (S (S (S (S (S (S (S (S (S (S (S (S (S (S (S (S (S (S (S (S (S (S (S (S
      (S (S (S (S (S (S (S (S (S (S (S (S (S (S (S (S (S (S (S (S (S (S (S (S
      (S (S (S (S (S (S (S (S (S (S (S (S (S (S (S (S (S (S (S (S (S (S (S (S
      (S (S (S (S (S (S (S (S (S (S (S (S (S (S (S (S (S (S (S (S (S (S (S (S
      (S (S (S (S (S (S (S (S (S (S (S (S (S (S (S (S (S (S (S (S (S (S (S (S
      (S (S (S (S (S (S (S (S
      O))))))))))))))))))))))))))))))))))))))))))))))))))))))))))))))))))))))))))))))))))))))))))))))))))))))))))))))))))))))))))))))))
  in
  let rho = zslice Z0 (Zpos (XO (XO (XO (XO (XO XH)))))) h2 in
  let rho_prime =
    zslice (Zpos (XO (XO (XO (XO (XO XH)))))) (Zpos (XO (XO (XO (XO (XO (XI
      XH))))))) h2
  in
  let cap_k =
    zslice (Zpos (XO (XO (XO (XO (XO (XI XH))))))) (Zpos (XO (XO (XO (XO (XO
      (XO (XO XH)))))))) h2
  in
  bind (expand_s h ctest p rho_prime) (fun x ->
    let (s_1, s_2) = x in
    bind (expand_a h ctest p rho) (fun cap_a_hat ->
      bind (ntt s_1) (fun s_1_hat ->
        bind (mat_vec_mul cap_a_hat s_1_hat) (fun as1_hat ->
          bind (inv_ntt as1_hat) (fun as1 ->
            bind (add_vector_ntt as1 s_2) (fun t_not_reduced ->
              bind (mapM (mapM full_reduce32) t_not_reduced) (fun t ->
                bind (power2round t) (fun x0 ->
                  let (t_1, t_0) = x0 in
                  bind (pk_encode p rho t_1) (fun pkb ->
                    let tr =
                      h257 pkb (S (S (S (S (S (S (S (S (S (S (S (S (S (S (S
                        (S (S (S (S (S (S (S (S (S (S (S (S (S (S (S (S (S (S
                        (S (S (S (S (S (S (S (S (S (S (S (S (S (S (S (S (S (S
                        (S (S (S (S (S (S (S (S (S (S (S (S (S
                        O))))))))))))))))))))))))))))))))))))))))))))))))))))))))))))))))
                    in
                    bind (t1_precompute t_1) (fun t1_d2_hat_mont ->
                      bind (ntt_mont s_1) (fun s_1_hat_mont ->
                        bind (ntt_mont s_2) (fun s_2_hat_mont ->
                          bind (ntt_mont t_0) (fun t_0_hat_mont -> Ok
                            ({ pk_rho = rho; pk_tr = tr; pk_t1_d2_hat_mont =
                            t1_d2_hat_mont }, { sk_rho = rho; sk_cap_k =
                            cap_k; sk_tr = tr; sk_s_1_hat_mont =
                            s_1_hat_mont; sk_s_2_hat_mont = s_2_hat_mont;
                            sk_t_0_hat_mont = t_0_hat_mont })))))))))))))))

(** val key_gen :
    hashes -> bool -> params -> rng -> (publicKey * privateKey) res * rng **)

let key_gen h ctest p g =
  let (o, g') = try_fill g xi_len in
  (match o with
   | Some xi -> ((key_gen_internal h ctest p xi), g')
   | None -> ((Err RngFailed), g'))

type mode =
| Nist
| Pure
| Prehash of bytes * bytes

(** val mu_of : hashes -> bytes -> mode -> bytes -> bytes -> bytes **)

let mu_of h =
  let h257 = h.h_shake256 in
  (fun tr md message ctx ->
  match md with
  | Nist ->
    h257 (app tr message) (S (S (S (S (S (S (S (S (S (S (S (S (S (S (S (S (S
      (S (S (S (S (S (S (S (S (S (S (S (S (S (S (S (S (S (S (S (S (S (S (S (S
      (S (S (S (S (S (S (S (S (S (S (S (S (S (S (S (S (S (S (S (S (S (S (S
      O))))))))))))))))))))))))))))))))))))))))))))))))))))))))))))))))
  | Pure ->
    h257
      (app tr
        (app (dom_pure :: [])
          (app ((len_byte (zlen ctx)) :: []) (app ctx message)))) (S (S (S (S
      (S (S (S (S (S (S (S (S (S (S (S (S (S (S (S (S (S (S (S (S (S (S (S (S
      (S (S (S (S (S (S (S (S (S (S (S (S (S (S (S (S (S (S (S (S (S (S (S (S
      (S (S (S (S (S (S (S (S (S (S (S (S
      O))))))))))))))))))))))))))))))))))))))))))))))))))))))))))))))))
  | Prehash (oid, phm) ->
    h257
      (app tr
        (app (dom_hash :: [])
          (app ((len_byte (zlen ctx)) :: []) (app ctx (app oid phm))))) (S (S
      (S (S (S (S (S (S (S (S (S (S (S (S (S (S (S (S (S (S (S (S (S (S (S (S
      (S (S (S (S (S (S (S (S (S (S (S (S (S (S (S (S (S (S (S (S (S (S (S (S
      (S (S (S (S (S (S (S (S (S (S (S (S (S (S
      O)))))))))))))))))))))))))))))))))))))))))))))))))))))))))))))))))

(** val mode_of : bool -> bytes -> bytes -> mode **)

let mode_of nist oid phm =
  if nist
  then Nist
  else (match oid with
        | [] -> Pure
        | _ :: _ -> Prehash (oid, phm))

(** val scalar_mul : z list -> z list list -> z list list res **)

let scalar_mul c_hat v_hat_mont =
  mapM (fun p -> map2M mul_mont_coef c_hat p) v_hat_mont

(** val sum_hints : z list list -> z **)

let sum_hints h =
  sumZ (map sumZ h)

(** val sign_attempt :
    hashes -> bool -> params -> privateKey -> z list list list -> bytes ->
    bytes -> z -> ((bytes * z list list) * z list list) option res **)

let sign_attempt h =
  let h257 = h.h_shake256 in
  (fun ctest p sk cap_a_hat mu rho_prime kappa ->
  let gamma1 = p.p_gamma1 in
  let gamma2 = p.p_gamma2 in
  let beta = p.p_beta in
  bind (expand_mask h p rho_prime kappa) (fun y ->
    bind (ntt y) (fun y_hat ->
      bind (mat_vec_mul cap_a_hat y_hat) (fun ay_hat ->
        bind (inv_ntt ay_hat) (fun w ->
          bind (mapM (mapM (high_bits gamma2)) w) (fun w_1 ->
            bind (w1_encode p w_1 p.p_w1_len) (fun w1_tilde ->
              let c_tilde = h257 (app mu w1_tilde) (Z.to_nat p.p_lambda_div4)
              in
              bind (sample_in_ball h ctest p.p_tau c_tilde) (fun c ->
                bind (ntt_poly c) (fun c_hat ->
                  bind (scalar_mul c_hat sk.sk_s_1_hat_mont) (fun cs1_hat ->
                    bind (inv_ntt cs1_hat) (fun c_s_1 ->
                      bind (scalar_mul c_hat sk.sk_s_2_hat_mont)
                        (fun cs2_hat ->
                        bind (inv_ntt cs2_hat) (fun c_s_2 ->
                          bind
                            (map2M
                              (map2M (fun a b ->
                                bind (add32 a b) partial_reduce32)) y c_s_1)
                            (fun z0 ->
                            bind
                              (map2M
                                (map2M (fun a b ->
                                  bind (sub32 a b) (fun s ->
                                    bind (partial_reduce32 s) (fun p0 ->
                                      low_bits gamma2 p0)))) w c_s_2)
                              (fun r0 ->
                              bind (infinity_norm z0) (fun z_norm ->
                                bind (infinity_norm r0) (fun r0_norm ->
                                  if (&&) (negb ctest)
                                       ((||)
                                         (Z.leb (Z.sub gamma1 beta) z_norm)
                                         (Z.leb (Z.sub gamma2 beta) r0_norm))
                                  then Ok None
                                  else bind
                                         (scalar_mul c_hat sk.sk_t_0_hat_mont)
                                         (fun ct0_hat ->
                                         bind (inv_ntt ct0_hat) (fun c_t_0 ->
                                           bind
                                             (map3M
                                               (map3M (fun wv cs2 ct0 ->
                                                 bind (sub32 q ct0) (fun a ->
                                                   bind (sub32 wv cs2)
                                                     (fun s ->
                                                     bind (add32 s ct0)
                                                       (fun s0 ->
                                                       bind
                                                         (partial_reduce32 s0)
                                                         (fun p0 ->
                                                         bind
                                                           (make_hint gamma2
                                                             a p0) (fun b ->
                                                           Ok (Z.b2z b))))))))
                                               w c_s_2 c_t_0) (fun h0 ->
                                             bind
                                               (if ctest
                                                then Ok false
                                                else bind
                                                       (infinity_norm c_t_0)
                                                       (fun n0 -> Ok
                                                       ((||)
                                                         (Z.leb gamma2 n0)
                                                         (Z.ltb p.p_omega
                                                           (sum_hints h0)))))
                                               (fun rej ->
                                               if rej
                                               then Ok None
                                               else Ok (Some ((c_tilde, z0),
                                                      h0)))))))))))))))))))))))

(** val sign_loop :
    hashes -> nat -> bool -> params -> privateKey -> z list list list ->
    bytes -> bytes -> z -> ((bytes * z list list) * z list list) res **)

let rec sign_loop h fuel ctest p sk cap_a_hat mu rho_prime kappa =
  match fuel with
  | O -> OutOfFuel
  | S f ->
    bind (sign_attempt h ctest p sk cap_a_hat mu rho_prime kappa) (fun r ->
      match r with
      | Some x -> Ok x
      | None ->
        bind
          (guard
            (Z.ltb (lz p) (Zpos (XO (XO (XO (XO (XO (XO (XO (XO (XO (XO (XO
              (XO (XO (XO (XO (XO XH)))))))))))))))))) (String ((Ascii (true,
            true, false, false, false, true, true, false)), (String ((Ascii
            (true, false, false, false, false, true, true, false)), (String
            ((Ascii (false, true, true, true, false, true, true, false)),
            (String ((Ascii (false, true, true, true, false, true, true,
            false)), (String ((Ascii (true, true, true, true, false, true,
            true, false)), (String ((Ascii (false, false, true, false, true,
            true, true, false)), (String ((Ascii (false, false, false, false,
            false, true, false, false)), (String ((Ascii (false, true, true,
            false, false, true, true, false)), (String ((Ascii (true, false,
            false, false, false, true, true, false)), (String ((Ascii (true,
            false, false, true, false, true, true, false)), (String ((Ascii
            (false, false, true, true, false, true, true, false)), (String
            ((Ascii (true, true, false, true, true, true, false, false)),
            (String ((Ascii (false, false, false, false, false, true, false,
            false)), (String ((Ascii (false, false, true, true, false, false,
            true, false)), (String ((Ascii (false, false, false, false,
            false, true, false, false)), (String ((Ascii (true, false, false,
            true, false, true, true, false)), (String ((Ascii (true, true,
            false, false, true, true, true, false)), (String ((Ascii (false,
            false, false, false, false, true, false, false)), (String ((Ascii
            (true, true, false, false, true, true, true, false)), (String
            ((Ascii (false, false, true, false, true, true, true, false)),
            (String ((Ascii (true, false, false, false, false, true, true,
            false)), (String ((Ascii (false, false, true, false, true, true,
            true, false)), (String ((Ascii (true, false, false, true, false,
            true, true, false)), (String ((Ascii (true, true, false, false,
            false, true, true, false)), (String ((Ascii (false, false, false,
            false, false, true, false, false)), (String ((Ascii (false,
            false, false, false, true, true, true, false)), (String ((Ascii
            (true, false, false, false, false, true, true, false)), (String
            ((Ascii (false, true, false, false, true, true, true, false)),
            (String ((Ascii (true, false, false, false, false, true, true,
            false)), (String ((Ascii (true, false, true, true, false, true,
            true, false)), (String ((Ascii (true, false, true, false, false,
            true, true, false)), (String ((Ascii (false, false, true, false,
            true, true, true, false)), (String ((Ascii (true, false, true,
            false, false, true, true, false)), (String ((Ascii (false, true,
            false, false, true, true, true, false)),
            EmptyString)))))))))))))))))))))))))))))))))))))))))))))))))))))))))))))))))))))
          (fun _ ->
          bind
            (guard
              (Z.ltb (Z.add kappa (lz p)) (Zpos (XO (XO (XO (XO (XO (XO (XO
                (XO (XO (XO (XO (XO (XO (XO (XO (XO XH))))))))))))))))))
              (String ((Ascii (true, false, true, false, true, true, true,
              false)), (String ((Ascii (true, false, false, false, true,
              true, false, false)), (String ((Ascii (false, true, true,
              false, true, true, false, false)), (String ((Ascii (false,
              false, false, false, false, true, false, false)), (String
              ((Ascii (true, false, false, false, false, true, true, false)),
              (String ((Ascii (false, false, true, false, false, true, true,
              false)), (String ((Ascii (false, false, true, false, false,
              true, true, false)), (String ((Ascii (false, false, false,
              false, false, true, false, false)), (String ((Ascii (true,
              true, true, true, false, true, true, false)), (String ((Ascii
              (false, true, true, false, true, true, true, false)), (String
              ((Ascii (true, false, true, false, false, true, true, false)),
              (String ((Ascii (false, true, false, false, true, true, true,
              false)), (String ((Ascii (false, true, true, false, false,
              true, true, false)), (String ((Ascii (false, false, true, true,
              false, true, true, false)), (String ((Ascii (true, true, true,
              true, false, true, true, false)), (String ((Ascii (true, true,
              true, false, true, true, true, false)),
              EmptyString))))))))))))))))))))))))))))))))) (fun _ ->
            sign_loop h f ctest p sk cap_a_hat mu rho_prime
              (Z.add kappa (lz p)))))

(** val sign_internal :
    hashes -> nat -> bool -> params -> privateKey -> bytes -> bytes -> bytes
    -> bytes -> bytes -> bool -> bytes res **)

let sign_internal h =
  let h257 = h.h_shake256 in
  (fun fuel ctest p sk message ctx oid phm rnd nist ->
  bind (expand_a h ctest p sk.sk_rho) (fun cap_a_hat ->
    let mu = mu_of h sk.sk_tr (mode_of nist oid phm) message ctx in
    let rho_prime =
      h257 (app sk.sk_cap_k (app rnd mu)) (S (S (S (S (S (S (S (S (S (S (S (S
        (S (S (S (S (S (S (S (S (S (S (S (S (S (S (S (S (S (S (S (S (S (S (S
        (S (S (S (S (S (S (S (S (S (S (S (S (S (S (S (S (S (S (S (S (S (S (S
        (S (S (S (S (S (S
        O))))))))))))))))))))))))))))))))))))))))))))))))))))))))))))))))
    in
    bind (sign_loop h fuel ctest p sk cap_a_hat mu rho_prime Z0) (fun x ->
      let (p0, h0) = x in
      let (c_tilde, z0) = p0 in
      bind (mapM (mapM center_mod) z0) (fun zmodq ->
        sig_encode ctest p c_tilde zmodq h0))))

(** val verify_internal :
    hashes -> bool -> params -> publicKey -> bytes -> bytes -> bytes -> bytes
    -> bytes -> bool -> bool res **)

let verify_internal h =
  let h257 = h.h_shake256 in
  (fun ctest p pk m sig0 ctx oid phm nist ->
  let gamma1 = p.p_gamma1 in
  let gamma2 = p.p_gamma2 in
  (match sig_decode p sig0 with
   | Ok a ->
     let (p0, h0) = a in
     let (c_tilde, z0) = p0 in
     bind (infinity_norm z0) (fun zn ->
       bind
         (guard (Z.leb zn gamma1) (String ((Ascii (true, false, false, false,
           false, false, true, false)), (String ((Ascii (false, false, true,
           true, false, true, true, false)), (String ((Ascii (true, true,
           true, false, false, true, true, false)), (String ((Ascii (false,
           false, false, false, false, true, false, false)), (String ((Ascii
           (false, false, false, true, true, true, false, false)), (String
           ((Ascii (false, true, false, true, true, true, false, false)),
           (String ((Ascii (false, false, false, false, false, true, false,
           false)), (String ((Ascii (true, false, false, true, false, true,
           true, false)), (String ((Ascii (true, true, true, true, true,
           false, true, false)), (String ((Ascii (false, true, true, true,
           false, true, true, false)), (String ((Ascii (true, true, true,
           true, false, true, true, false)), (String ((Ascii (false, true,
           false, false, true, true, true, false)), (String ((Ascii (true,
           false, true, true, false, true, true, false)), (String ((Ascii
           (false, false, false, false, false, true, false, false)), (String
           ((Ascii (true, true, true, true, false, true, true, false)),
           (String ((Ascii (true, false, true, false, true, true, true,
           false)), (String ((Ascii (false, false, true, false, true, true,
           true, false)), (String ((Ascii (false, false, false, false, false,
           true, false, false)), (String ((Ascii (true, true, true, true,
           false, true, true, false)), (String ((Ascii (false, true, true,
           false, false, true, true, false)), (String ((Ascii (false, false,
           false, false, false, true, false, false)), (String ((Ascii (false,
           true, false, false, true, true, true, false)), (String ((Ascii
           (true, false, false, false, false, true, true, false)), (String
           ((Ascii (false, true, true, true, false, true, true, false)),
           (String ((Ascii (true, true, true, false, false, true, true,
           false)), (String ((Ascii (true, false, true, false, false, true,
           true, false)),
           EmptyString)))))))))))))))))))))))))))))))))))))))))))))))))))))
         (fun _ ->
         let mu = mu_of h pk.pk_tr (mode_of nist oid phm) m ctx in
         bind (sample_in_ball h false p.p_tau c_tilde) (fun c ->
           bind (expand_a h ctest p pk.pk_rho) (fun cap_a_hat ->
             bind (ntt z0) (fun z_hat ->
               bind (mat_vec_mul cap_a_hat z_hat) (fun az_hat ->
                 bind (ntt_poly c) (fun c_hat ->
                   bind
                     (map2M (fun azp t1p ->
                       map3M (fun az ch0 t1 ->
                         bind (mul_mont_coef ch0 t1) (fun m0 -> sub32 az m0))
                         azp c_hat t1p) az_hat pk.pk_t1_d2_hat_mont)
                     (fun diff ->
                     bind (inv_ntt diff) (fun wp_approx ->
                       bind (map2M (map2M (use_hint gamma2)) h0 wp_approx)
                         (fun wp_1 ->
                         bind (w1_encode p wp_1 p.p_w1_len) (fun tmp ->
                           let c_tilde_p =
                             h257 (app mu tmp) (Z.to_nat p.p_lambda_div4)
                           in
                           bind (infinity_norm z0) (fun zn2 ->
                             let left = Z.ltb zn2 (Z.sub gamma1 p.p_beta) in
                             let right = list_eqb c_tilde c_tilde_p in
                             Ok ((&&) left right)))))))))))))
   | Err _ -> Ok false
   | Panic s -> Panic s
   | OutOfFuel -> OutOfFuel))

(** val expand_private : params -> bytes -> privateKey res **)

let expand_private p skb =
  bind (sk_decode p skb) (fun x ->
    let (p0, t_0) = x in
    let (p1, s_2) = p0 in
    let (p2, s_1) = p1 in
    let (p3, tr) = p2 in
    let (rho, cap_k) = p3 in
    bind (ntt_mont s_1) (fun s_1_hat_mont ->
      bind (ntt_mont s_2) (fun s_2_hat_mont ->
        bind (ntt_mont t_0) (fun t_0_hat_mont -> Ok { sk_rho = rho;
          sk_cap_k = cap_k; sk_tr = tr; sk_s_1_hat_mont = s_1_hat_mont;
          sk_s_2_hat_mont = s_2_hat_mont; sk_t_0_hat_mont = t_0_hat_mont }))))

(** val expand_public : hashes -> params -> bytes -> publicKey res **)

let expand_public h =
  let h257 = h.h_shake256 in
  (fun p pkb ->
  bind (pk_decode p pkb) (fun x ->
    let (rho, t_1) = x in
    let tr =
      h257 pkb (S (S (S (S (S (S (S (S (S (S (S (S (S (S (S (S (S (S (S (S (S
        (S (S (S (S (S (S (S (S (S (S (S (S (S (S (S (S (S (S (S (S (S (S (S
        (S (S (S (S (S (S (S (S (S (S (S (S (S (S (S (S (S (S (S (S
        O))))))))))))))))))))))))))))))))))))))))))))))))))))))))))))))))
    in
    bind (t1_precompute t_1) (fun t1_d2_hat_mont -> Ok { pk_rho = rho;
      pk_tr = tr; pk_t1_d2_hat_mont = t1_d2_hat_mont })))

(** val unmont : z list list -> z list list res **)

let unmont v =
  mapM (mapM mont_reduce) v

(** val recenter : z -> z res **)

let recenter x =
  if Z.ltb (Z.div q (Zpos (XO XH))) x then sub32 x q else Ok x

(** val private_to_public_key :
    hashes -> params -> privateKey -> publicKey res **)

let private_to_public_key h p sk =
  bind (expand_a h false p sk.sk_rho) (fun cap_a_hat ->
    bind (unmont sk.sk_s_1_hat_mont) (fun s_1_hat ->
      bind (unmont sk.sk_s_2_hat_mont) (fun s_2h ->
        bind (inv_ntt s_2h) (fun s_2 ->
          bind (mapM (mapM recenter) s_2) (fun s_3 ->
            bind (mat_vec_mul cap_a_hat s_1_hat) (fun as1_hat ->
              bind (inv_ntt as1_hat) (fun as1 ->
                bind (add_vector_ntt as1 s_3) (fun t_not_reduced ->
                  bind (mapM (mapM full_reduce32) t_not_reduced) (fun t ->
                    bind (power2round t) (fun x ->
                      let (t_1, _) = x in
                      bind (t1_precompute t_1) (fun t1_d2_hat_mont -> Ok
                        { pk_rho = sk.sk_rho; pk_tr = sk.sk_tr;
                        pk_t1_d2_hat_mont = t1_d2_hat_mont })))))))))))

(** val try_keygen_with_rng :
    hashes -> params -> rng -> (publicKey * privateKey) res * rng **)

let try_keygen_with_rng h p g =
  key_gen h false p g

(** val keygen_from_seed :
    hashes -> params -> bytes -> (publicKey * privateKey) res **)

let keygen_from_seed h p xi =
  key_gen_internal h false p xi

(** val try_sign_with_rng :
    hashes -> nat -> params -> privateKey -> rng -> bytes -> bytes -> bytes
    res * rng **)

let try_sign_with_rng h fuel p sk g message ctx =
  if negb (Z.leb (zlen ctx) ctx_max_try_sign_with_rng)
  then ((Err CtxTooLong), g)
  else let (o, g') = try_fill g rnd_len_try_sign_with_rng in
       (match o with
        | Some rnd ->
          ((sign_internal h fuel false p sk message ctx [] [] rnd false), g')
        | None -> ((Err RngFailed), g'))

(** val try_hash_sign_with_rng :
    hashes -> nat -> params -> privateKey -> rng -> bytes -> bytes -> ph ->
    bytes res * rng **)

let try_hash_sign_with_rng h fuel p sk g message ctx ph0 =
  if negb (Z.leb (zlen ctx) ctx_max_try_hash_sign_with_rng)
  then ((Err CtxTooLong), g)
  else let (o, g') = try_fill g rnd_len_try_hash_sign_with_rng in
       (match o with
        | Some rnd ->
          let (oid, phm) = hash_message h message ph0 in
          ((sign_internal h fuel false p sk message ctx oid phm rnd false),
          g')
        | None -> ((Err RngFailed), g'))

(** val get_public_key : hashes -> params -> privateKey -> publicKey res **)

let get_public_key =
  private_to_public_key

(** val verify :
    hashes -> params -> publicKey -> bytes -> bytes -> bytes -> bool res **)

let verify h p pk message sig0 ctx =
  if Z.ltb ctx_max_verify (zlen ctx)
  then Ok false
  else verify_internal h false p pk message sig0 ctx [] [] false

(** val hash_verify :
    hashes -> params -> publicKey -> bytes -> bytes -> bytes -> ph -> bool res **)

let hash_verify h p pk message sig0 ctx ph0 =
  if Z.ltb ctx_max_hash_verify (zlen ctx)
  then Ok false
  else let (oid, phm) = hash_message h message ph0 in
       verify_internal h false p pk message sig0 ctx oid phm false

(** val sk_try_from_bytes : params -> bytes -> privateKey res **)

let sk_try_from_bytes =
  expand_private

(** val unmont_inv_recenter : z list list -> z list list res **)

let unmont_inv_recenter v =
  bind (unmont v) (fun a ->
    bind (inv_ntt a) (fun b -> mapM (mapM recenter) b))

(** val sk_into_bytes : params -> privateKey -> bytes res **)

let sk_into_bytes p sk =
  bind (unmont_inv_recenter sk.sk_s_1_hat_mont) (fun s_1 ->
    bind (unmont_inv_recenter sk.sk_s_2_hat_mont) (fun s_2 ->
      bind (unmont_inv_recenter sk.sk_t_0_hat_mont) (fun t_0 ->
        sk_encode p sk.sk_rho sk.sk_cap_k sk.sk_tr s_1 s_2 t_0)))

(** val pk_try_from_bytes : hashes -> params -> bytes -> publicKey res **)

let pk_try_from_bytes =
  expand_public

(** val pk_into_bytes : params -> publicKey -> bytes res **)

let pk_into_bytes p pk =
  bind (unmont pk.pk_t1_d2_hat_mont) (fun a ->
    bind (inv_ntt a) (fun t1_d2 ->
      let t1 = map (map (fun x -> shr x d)) t1_d2 in pk_encode p pk.pk_rho t1))

(** val internal_sign :
    hashes -> nat -> params -> privateKey -> bytes -> bytes -> bytes -> bytes
    res **)

let internal_sign h fuel p sk message ctx rnd =
  if negb (Z.leb (zlen ctx) ctx_max_internal_sign)
  then Err CtxTooLong
  else sign_internal h fuel false p sk message ctx [] [] rnd true

(** val internal_verify :
    hashes -> params -> publicKey -> bytes -> bytes -> bytes -> bool res **)

let internal_verify h p pk message sig0 ctx =
  if Z.ltb ctx_max_internal_verify (zlen ctx)
  then Ok false
  else verify_internal h false p pk message sig0 ctx [] [] true

(** val dudect_keygen_sign_with_rng :
    hashes -> nat -> params -> rng -> bytes -> bytes res * rng **)

let dudect_keygen_sign_with_rng h fuel p g message =
  let (r, g1) = key_gen h true p g in
  (match r with
   | Ok a ->
     let (_, sk) = a in
     let (o, g2) = try_fill g1 (Zpos (XO (XO (XO (XO (XO XH)))))) in
     (match o with
      | Some rnd ->
        ((sign_internal h fuel true p sk message ((Zpos XH) :: []) ((Zpos (XO
           XH)) :: []) ((Zpos (XI XH)) :: []) rnd true), g2)
      | None -> ((Err RngFailed), g2))
   | Err e -> ((Err e), g1)
   | Panic s -> ((Panic s), g1)
   | OutOfFuel -> (OutOfFuel, g1))

(** val z_ops :
    ((((((((z -> z -> z) * (z -> z -> z)) * (z -> z)) * (z -> z -> z)) * (z
    -> z -> z)) * (z -> z -> bool)) * (z -> z -> bool)) * (nat -> z)) * (z ->
    nat) **)

let z_ops =
  ((((((((Z.add, Z.mul), Z.opp), Z.div), Z.modulo), Z.ltb), Z.eqb),
    Z.of_nat), Z.to_nat)
