
val negb : bool -> bool

type nat =
| O
| S of nat

val fst : ('a1 * 'a2) -> 'a1

val snd : ('a1 * 'a2) -> 'a2

val length : 'a1 list -> nat

val app : 'a1 list -> 'a1 list -> 'a1 list

type comparison =
| Eq
| Lt
| Gt

val compOpp : comparison -> comparison

val add : nat -> nat -> nat

val sub : nat -> nat -> nat

type positive =
| XI of positive
| XO of positive
| XH

type n =
| N0
| Npos of positive

type z =
| Z0
| Zpos of positive
| Zneg of positive

module Nat :
 sig
  val add : nat -> nat -> nat

  val mul : nat -> nat -> nat

  val sub : nat -> nat -> nat

  val eqb : nat -> nat -> bool

  val pow : nat -> nat -> nat

  val divmod : nat -> nat -> nat -> nat -> nat * nat

  val div : nat -> nat -> nat

  val modulo : nat -> nat -> nat
 end

module Pos :
 sig
  type mask =
  | IsNul
  | IsPos of positive
  | IsNeg
 end

module Coq_Pos :
 sig
  val succ : positive -> positive

  val add : positive -> positive -> positive

  val add_carry : positive -> positive -> positive

  val pred_double : positive -> positive

  val pred_N : positive -> n

  type mask = Pos.mask =
  | IsNul
  | IsPos of positive
  | IsNeg

  val succ_double_mask : mask -> mask

  val double_mask : mask -> mask

  val double_pred_mask : positive -> mask

  val sub_mask : positive -> positive -> mask

  val sub_mask_carry : positive -> positive -> mask

  val mul : positive -> positive -> positive

  val iter : ('a1 -> 'a1) -> 'a1 -> positive -> 'a1

  val pow : positive -> positive -> positive

  val div2 : positive -> positive

  val div2_up : positive -> positive

  val size : positive -> positive

  val compare_cont : comparison -> positive -> positive -> comparison

  val compare : positive -> positive -> comparison

  val eqb : positive -> positive -> bool

  val coq_Nsucc_double : n -> n

  val coq_Ndouble : n -> n

  val coq_lor : positive -> positive -> positive

  val coq_land : positive -> positive -> n

  val ldiff : positive -> positive -> n

  val coq_lxor : positive -> positive -> n

  val shiftl : positive -> n -> positive

  val iter_op : ('a1 -> 'a1 -> 'a1) -> positive -> 'a1 -> 'a1

  val to_nat : positive -> nat

  val of_succ_nat : nat -> positive
 end

module N :
 sig
  val succ_double : n -> n

  val double : n -> n

  val pred : n -> n

  val succ_pos : n -> positive

  val add : n -> n -> n

  val sub : n -> n -> n

  val mul : n -> n -> n

  val compare : n -> n -> comparison

  val eqb : n -> n -> bool

  val leb : n -> n -> bool

  val div2 : n -> n

  val pow : n -> n -> n

  val pos_div_eucl : positive -> n -> n * n

  val div_eucl : n -> n -> n * n

  val modulo : n -> n -> n

  val coq_lor : n -> n -> n

  val coq_land : n -> n -> n

  val ldiff : n -> n -> n

  val coq_lxor : n -> n -> n

  val shiftl : n -> n -> n

  val shiftr : n -> n -> n

  val of_nat : nat -> n

  val ones : n -> n
 end

module Z :
 sig
  val double : z -> z

  val succ_double : z -> z

  val pred_double : z -> z

  val pos_sub : positive -> positive -> z

  val add : z -> z -> z

  val opp : z -> z

  val sub : z -> z -> z

  val mul : z -> z -> z

  val pow_pos : z -> positive -> z

  val pow : z -> z -> z

  val compare : z -> z -> comparison

  val leb : z -> z -> bool

  val ltb : z -> z -> bool

  val eqb : z -> z -> bool

  val max : z -> z -> z

  val abs : z -> z

  val to_nat : z -> nat

  val to_N : z -> n

  val of_nat : nat -> z

  val of_N : n -> z

  val pos_div_eucl : positive -> z -> z * z

  val div_eucl : z -> z -> z * z

  val div : z -> z -> z

  val modulo : z -> z -> z

  val div2 : z -> z

  val log2 : z -> z

  val shiftl : z -> z -> z

  val shiftr : z -> z -> z

  val coq_lor : z -> z -> z

  val coq_land : z -> z -> z

  val coq_lxor : z -> z -> z

  val b2z : bool -> z
 end

val nth : nat -> 'a1 list -> 'a1 -> 'a1

val rev : 'a1 list -> 'a1 list

val concat : 'a1 list list -> 'a1 list

val map : ('a1 -> 'a2) -> 'a1 list -> 'a2 list

val flat_map : ('a1 -> 'a2 list) -> 'a1 list -> 'a2 list

val fold_left : ('a1 -> 'a2 -> 'a1) -> 'a2 list -> 'a1 -> 'a1

val fold_right : ('a2 -> 'a1 -> 'a1) -> 'a1 -> 'a2 list -> 'a1

val forallb : ('a1 -> bool) -> 'a1 list -> bool

val filter : ('a1 -> bool) -> 'a1 list -> 'a1 list

val combine : 'a1 list -> 'a2 list -> ('a1 * 'a2) list

val firstn : nat -> 'a1 list -> 'a1 list

val skipn : nat -> 'a1 list -> 'a1 list

val seq : nat -> nat -> nat list

val repeat : 'a1 -> nat -> 'a1 list

type ascii =
| Ascii of bool * bool * bool * bool * bool * bool * bool * bool

type string =
| EmptyString
| String of ascii * string

type bytes = z list

val zlen : 'a1 list -> z

val ztake : z -> 'a1 list -> 'a1 list

val zdrop : z -> 'a1 list -> 'a1 list

val zslice : z -> z -> 'a1 list -> 'a1 list

val znth : z list -> z -> z

val upd : 'a1 list -> nat -> 'a1 -> 'a1 list

val zupd : z list -> z -> z -> z list

val zeros : nat -> z list

val sumZ : z list -> z

val list_eqb : z list -> z list -> bool

type err =
| CtxTooLong
| RngFailed
| Malformed
| Reject

type 'a res =
| Ok of 'a
| Err of err
| Panic of string
| OutOfFuel

val bind : 'a1 res -> ('a1 -> 'a2 res) -> 'a2 res

val guard : bool -> string -> unit res

val ensure : bool -> err -> unit res

val mapM : ('a1 -> 'a2 res) -> 'a1 list -> 'a2 list res

val map2M : ('a1 -> 'a2 -> 'a3 res) -> 'a1 list -> 'a2 list -> 'a3 list res

val i32_min : z

val i32_max : z

val i64_min : z

val i64_max : z

val in_i32 : z -> bool

val in_i64 : z -> bool

val wrap32 : z -> z

val wrap64 : z -> z

val chk32 : string -> z -> z res

val chk64 : string -> z -> z res

val add32 : z -> z -> z res

val sub32 : z -> z -> z res

val mul32 : z -> z -> z res

val neg32 : z -> z res

val abs32 : z -> z res

val sub64 : z -> z -> z res

val mul64 : z -> z -> z res

val abs64 : z -> z res

val shr : z -> z -> z

val shl32 : z -> z -> z

val shl64 : z -> z -> z

type params = { p_name : z; p_k : nat; p_l : nat; p_eta : z; p_tau : 
                z; p_lambda : z; p_gamma1 : z; p_gamma2 : z; p_omega : 
                z; p_beta : z; p_lambda_div4 : z; p_w1_len : z; p_sk_len : 
                z; p_pk_len : z; p_sig_len : z }

val q : z

val zETA : z

val d : z

val p44 : params

val p65 : params

val p87 : params

val qINV : z

val f_MONT : z

val ctx_max_try_sign_with_rng : z

val ctx_max_try_hash_sign_with_rng : z

val ctx_max_internal_sign : z

val ctx_max_verify : z

val ctx_max_hash_verify : z

val ctx_max_internal_verify : z

val rnd_len_try_sign_with_rng : z

val rnd_len_try_hash_sign_with_rng : z

val xi_len : z

val dom_pure : z

val dom_hash : z

val len_byte : z -> z

type ph =
| SHA256
| SHA512
| SHAKE128

type hashFn =
| HF_sha256
| HF_sha512
| HF_shake128

val ph_oid : ph -> z list

val ph_fn : ph -> hashFn

val ph_len : ph -> z

val ph_written : ph -> z

val mask64 : n

val rotl : n -> n -> n

val not64 : n -> n

val rC : n list

val x5 : n -> n -> n -> n -> n -> n

val chi : n -> n -> n -> n

val round : n -> n list -> n list

val keccak_f : n list -> n list

val lane_of_bytes : n list -> n

val bytes_of_lane : nat -> n -> n list

val lanes_of_bytes : nat -> n list -> n list

val xor_into : n list -> n list -> n list

val zero_state : n list

val absorb : nat -> nat -> n list -> n list -> n list

val pad : nat -> n -> n list -> n list

val state_bytes : nat -> n list -> n list

val squeeze : nat -> nat -> n list -> n list

val sponge : nat -> n -> n list -> nat -> n list

val shake128_N : n list -> nat -> n list

val shake256_N : n list -> nat -> n list

val shake128 : z list -> nat -> z list

val shake256 : z list -> nat -> z list

val wadd : n -> n -> n -> n

val rotr : n -> n -> n -> n

val shr0 : n -> n -> n

val wnot : n -> n -> n

val ch : n -> n -> n -> n -> n

val maj : n -> n -> n -> n

val bsig0 : n -> n -> n -> n -> n -> n

val bsig1 : n -> n -> n -> n -> n -> n

val ssig0 : n -> n -> n -> n -> n -> n

val ssig1 : n -> n -> n -> n -> n -> n

val schedule : n -> n -> n -> n -> n -> n -> n -> nat -> n list -> n list

val step : n -> n -> n -> n -> n -> n -> n -> n list -> (n * n) -> n list

val compress :
  n -> n -> n -> n -> n -> n -> n -> n -> n -> n -> n -> n -> n -> n list ->
  n list -> n list -> n list

val be_word : n list -> n

val be_bytes : nat -> n -> n list

val words_of : nat -> nat -> n list -> n list

val sha_pad : nat -> nat -> n list -> n list

val blocks :
  nat -> nat -> nat -> (n list -> n list -> n list) -> n list -> n list -> n
  list

val k256 : n list

val h256 : n list

val k512 : n list

val h512 : n list

val compress256 : n list -> n list -> n list

val compress512 : n list -> n list -> n list

val sha256_N : n list -> n list

val sha512_N : n list -> n list

val sha256 : z list -> z list

val sha512 : z list -> z list

type hashes = { h_shake256 : (bytes -> nat -> bytes);
                h_shake128 : (bytes -> nat -> bytes);
                h_sha256 : (bytes -> bytes); h_sha512 : (bytes -> bytes) }

val real_hashes : hashes

val is_in_range : z list -> z -> z -> bool

val pR64_M : z

val pR64_BOUND : z

val pR32_BOUND : z

val partial_reduce64 : z -> z res

val partial_reduce32 : z -> z res

val full_reduce32 : z -> z res

val bit_length : z -> z res

val bitlen : z -> z

val center_mod : z -> z res

val mONT_LO : z

val mONT_HI : z

val mont_reduce : z -> z res

val to_mont_coef : z -> z res

val to_mont_poly : z list -> z list res

val to_mont : z list list -> z list list res

val add_poly : z list -> z list -> z list res

val add_vector_ntt : z list list -> z list list -> z list list res

val mul_mont_coef : z -> z -> z res

val acc_coef : z -> z -> z -> z res

val map3M :
  ('a1 -> 'a2 -> 'a3 -> 'a4 res) -> 'a1 list -> 'a2 list -> 'a3 list -> 'a4
  list res

val row_acc : z list -> z list list -> z list list -> z list res

val mat_vec_mul : z list list list -> z list list -> z list list res

val abs_center : z -> z res

val infinity_norm : z list list -> z res

val brv_aux : nat -> z -> z -> z

val brv8 : z -> z

val zeta_powers : nat -> z -> z list

val zETA_TABLE_MONT : z list

val zeta_mont : z -> z

val fwd_t : z -> z -> z res

val ntt_rec : nat -> z -> z list -> z list res

val ntt_poly : z list -> z list res

val ntt : z list list -> z list list res

val inv_hi : z -> z -> z -> z res

val inv_rec : nat -> z -> z -> z list -> z list res

val inv_final : z -> z res

val inv_ntt_poly : z list -> z list res

val inv_ntt : z list list -> z list list res

val p2r_hi : z -> z res

val p2r_lo : z -> z -> z res

val p2r_check : z -> z -> z -> bool res

val power2round : z list list -> (z list list * z list list) res

val is44 : z -> bool

val decompose : z -> z -> (z * z) res

val high_bits : z -> z -> z res

val low_bits : z -> z -> z res

val make_hint : z -> z -> z -> bool res

val use_hint : z -> z -> z -> z res

val coeff_from_three_bytes : bool -> z -> z -> z -> z res

val m5 : z

val coeff_from_half_byte : bool -> z -> z -> z res

val wrapu32 : z -> z

val bp_flush : nat -> z -> z -> z list -> (z * z) * z list

val bp_step : z -> z -> z -> ((z * z) * z list) -> z -> (z * z) * z list

val bit_pack_raw : z list -> z -> z -> z list

val bit_pack : z list -> z -> z -> z -> z list res

val simple_bit_pack : z list -> z -> z -> z list res

val bu_drain : nat -> z -> z -> z -> z -> z -> z list -> (z * z) * z list

val bu_step : z -> z -> z -> ((z * z) * z list) -> z -> (z * z) * z list

val bit_unpack_raw : z list -> z -> z -> z list

val bit_unpack : z list -> z -> z -> z list res

val simple_bit_unpack : z list -> z -> z list res

val set_byte : z list -> z -> z -> z list res

val hbp_coef : bool -> (z list * z) -> (z * z) -> (z list * z) res

val foldM : ('a1 -> 'a2 -> 'a1 res) -> 'a2 list -> 'a1 -> 'a1 res

val hbp_poly :
  bool -> z -> ((z list * z) * z) -> z list -> ((z list * z) * z) res

val count_ones : z list -> z

val hint_bit_pack : bool -> z -> z list list -> z -> z list res

val get_byte : z list -> z -> z res

val hbu_while : nat -> z list -> z -> z -> z -> z list -> (z list * z) res

val hbu_poly : z -> z list -> (z list list * z) -> z -> (z list list * z) res

val hint_bit_unpack : nat -> z -> z list -> z list list res

val kz : params -> z

val lz : params -> z

val bLQD : z

val t1MAX : z

val tOP : z

val pk_encode : params -> bytes -> z list list -> bytes res

val pk_decode : params -> bytes -> (bytes * z list list) res

val sk_len_formula : params -> z

val sk_encode :
  params -> bytes -> bytes -> bytes -> z list list -> z list list -> z list
  list -> bytes res

val sk_decode :
  params -> bytes -> (((((bytes * bytes) * bytes) * z list list) * z list
  list) * z list list) res

val sig_len_formula : params -> z

val sig_encode :
  bool -> params -> bytes -> z list list -> z list list -> bytes res

val sig_decode : params -> bytes -> ((bytes * z list list) * z list list) res

val w1_encode : params -> z list list -> z -> bytes res

val with_fuel : (nat -> 'a1 res) -> nat list -> 'a1 res

val sib_find : z -> bytes -> (z * bytes) res

val sib_step :
  bool -> z -> bytes -> (z list * bytes) -> z -> (z list * bytes) res

val sample_in_ball_from : bool -> z -> bytes -> z list res

val sample_in_ball : hashes -> bool -> z -> bytes -> z list res

val rej_ntt_loop : bool -> bytes -> nat -> z list -> z list res

val rej_ntt_poly : hashes -> bool -> bytes -> z list res

val rbp_take : nat -> z list -> z res -> (nat * z list) res

val rej_bounded_loop : bool -> z -> bytes -> nat -> z list -> z list res

val rej_bounded_poly : hashes -> bool -> z -> bytes -> z list res

val expand_a : hashes -> bool -> params -> bytes -> z list list list res

val expand_s :
  hashes -> bool -> params -> bytes -> (z list list * z list list) res

val le2 : z -> bytes

val expand_mask : hashes -> params -> bytes -> z -> z list list res

val hash_message : hashes -> bytes -> ph -> bytes * bytes

type publicKey = { pk_rho : bytes; pk_tr : bytes;
                   pk_t1_d2_hat_mont : z list list }

type privateKey = { sk_rho : bytes; sk_cap_k : bytes; sk_tr : bytes;
                    sk_s_1_hat_mont : z list list;
                    sk_s_2_hat_mont : z list list;
                    sk_t_0_hat_mont : z list list }

type rng_reply =
| Fill of bytes
| Fail of bytes

type rng = rng_reply list

val try_fill : rng -> z -> bytes option * rng

val t1_precompute : z list list -> z list list res

val ntt_mont : z list list -> z list list res

val key_gen_internal :
  hashes -> bool -> params -> bytes -> (publicKey * privateKey) res

val key_gen :
  hashes -> bool -> params -> rng -> (publicKey * privateKey) res * rng

type mode =
| Nist
| Pure
| Prehash of bytes * bytes

val mu_of : hashes -> bytes -> mode -> bytes -> bytes -> bytes

val mode_of : bool -> bytes -> bytes -> mode

val scalar_mul : z list -> z list list -> z list list res

val sum_hints : z list list -> z

val sign_attempt :
  hashes -> bool -> params -> privateKey -> z list list list -> bytes ->
  bytes -> z -> ((bytes * z list list) * z list list) option res

val sign_loop :
  hashes -> nat -> bool -> params -> privateKey -> z list list list -> bytes
  -> bytes -> z -> ((bytes * z list list) * z list list) res

val sign_internal :
  hashes -> nat -> bool -> params -> privateKey -> bytes -> bytes -> bytes ->
  bytes -> bytes -> bool -> bytes res

val verify_internal :
  hashes -> bool -> params -> publicKey -> bytes -> bytes -> bytes -> bytes
  -> bytes -> bool -> bool res

val expand_private : params -> bytes -> privateKey res

val expand_public : hashes -> params -> bytes -> publicKey res

val unmont : z list list -> z list list res

val recenter : z -> z res

val private_to_public_key : hashes -> params -> privateKey -> publicKey res

val try_keygen_with_rng :
  hashes -> params -> rng -> (publicKey * privateKey) res * rng

val keygen_from_seed :
  hashes -> params -> bytes -> (publicKey * privateKey) res

val try_sign_with_rng :
  hashes -> nat -> params -> privateKey -> rng -> bytes -> bytes -> bytes
  res * rng

val try_hash_sign_with_rng :
  hashes -> nat -> params -> privateKey -> rng -> bytes -> bytes -> ph ->
  bytes res * rng

val get_public_key : hashes -> params -> privateKey -> publicKey res

val verify :
  hashes -> params -> publicKey -> bytes -> bytes -> bytes -> bool res

val hash_verify :
  hashes -> params -> publicKey -> bytes -> bytes -> bytes -> ph -> bool res

val sk_try_from_bytes : params -> bytes -> privateKey res

val unmont_inv_recenter : z list list -> z list list res

val sk_into_bytes : params -> privateKey -> bytes res

val pk_try_from_bytes : hashes -> params -> bytes -> publicKey res

val pk_into_bytes : params -> publicKey -> bytes res

val internal_sign :
  hashes -> nat -> params -> privateKey -> bytes -> bytes -> bytes -> bytes
  res

val internal_verify :
  hashes -> params -> publicKey -> bytes -> bytes -> bytes -> bool res

val dudect_keygen_sign_with_rng :
  hashes -> nat -> params -> rng -> bytes -> bytes res * rng

val z_ops :
  ((((((((z -> z -> z) * (z -> z -> z)) * (z -> z)) * (z -> z -> z)) * (z ->
  z -> z)) * (z -> z -> bool)) * (z -> z -> bool)) * (nat -> z)) * (z -> nat)
