//! Known-answer digest per enabled parameter set, for one feature configuration of fips204 (C17).
//! Prints `KAT <set> <sha256 of pk || sk || (sig, verify ok, verify wrong-msg) x 4 modes || derived pk>` and, when a count N
//! is given as second argument, `BULK <set> <sha256 of (pure signature of the message i, verify result) for i < N>` (rare
//! boundary events in the rejection loop show up only over many messages).
#![allow(unused_imports, unused_macros, dead_code)]
use fips204::traits::{KeyGen, SerDes, Signer, Verifier};
use fips204::Ph;
use rand_core::{CryptoRng, RngCore};
use sha2::{Digest, Sha256};

struct Fixed([u8; 32]);
impl RngCore for Fixed {
    fn next_u32(&mut self) -> u32 { unimplemented!() }
    fn next_u64(&mut self) -> u64 { unimplemented!() }
    fn fill_bytes(&mut self, _d: &mut [u8]) { unimplemented!() }
    fn try_fill_bytes(&mut self, d: &mut [u8]) -> Result<(), rand_core::Error> {
        d.copy_from_slice(&self.0);
        Ok(())
    }
}
impl CryptoRng for Fixed {}

/// a generator that writes half of the buffer and then reports failure
struct Failing;
impl RngCore for Failing {
    fn next_u32(&mut self) -> u32 { unimplemented!() }
    fn next_u64(&mut self) -> u64 { unimplemented!() }
    fn fill_bytes(&mut self, _d: &mut [u8]) { unimplemented!() }
    fn try_fill_bytes(&mut self, d: &mut [u8]) -> Result<(), rand_core::Error> {
        let n = d.len() / 2;
        for b in d[..n].iter_mut() { *b = 0x11; }
        Err(rand_core::Error::from(core::num::NonZeroU32::new(rand_core::Error::CUSTOM_START + 7).unwrap()))
    }
}
impl CryptoRng for Failing {}

macro_rules! kat {
    ($m:ident, $name:expr, $seed:expr, $rnd:expr, $bulk:expr) => {{
        use fips204::$m as api;
        let (pk, sk) = api::KG::keygen_from_seed(&$seed);
        let pkb = pk.clone().into_bytes();
        let skb = sk.clone().into_bytes();
        let mut h = Sha256::new();
        h.update(&pkb);
        h.update(&skb);
        let sk2 = api::PrivateKey::try_from_bytes(skb).unwrap();
        let pk2 = api::PublicKey::try_from_bytes(pkb).unwrap();
        let msg = b"kat";
        let ctx = b"cx";
        for mode in 0..4 {
            let mut rng = Fixed($rnd);
            let (sig, ok, bad) = match mode {
                0 => {
                    let s = sk2.try_sign_with_rng(&mut rng, msg, ctx).unwrap();
                    (s, pk2.verify(msg, &s, ctx), pk2.verify(b"kau", &s, ctx))
                }
                _ => {
                    let ph = match mode { 1 => Ph::SHA256, 2 => Ph::SHA512, _ => Ph::SHAKE128 };
                    let s = sk2.try_hash_sign_with_rng(&mut rng, msg, ctx, &ph).unwrap();
                    (s, pk2.hash_verify(msg, &s, ctx, &ph), pk2.hash_verify(b"kau", &s, ctx, &ph))
                }
            };
            h.update(&sig);
            h.update(&[ok as u8]);
            h.update(&[bad as u8]);
        }
        h.update(&sk2.get_public_key().into_bytes());
        // error paths must not depend on the configuration either
        h.update(&[api::try_keygen_with_rng(&mut Failing).is_ok() as u8]);
        h.update(&[sk2.try_sign_with_rng(&mut Failing, msg, ctx).is_ok() as u8]);
        h.update(&[sk2.try_hash_sign_with_rng(&mut Failing, msg, ctx, &Ph::SHA512).is_ok() as u8]);
        // decisions on malformed variants of a valid signature (this binary is built WITHOUT the hooks feature: it runs the
        // decoder users run): last byte / last index byte / first z byte perturbed, non-zero padding, all must be rejected
        {
            let mut rng = Fixed($rnd);
            let good = sk2.try_sign_with_rng(&mut rng, msg, ctx).unwrap();
            let n = good.len();
            let mut malf = String::new();
            for (pos, val) in [(n - 1, 0xffu8), (n - 1 - (api::SIG_LEN - n + 1), 0x01), (40, 0x80), (n - 12, 0x01), (n - 13, 0xa5), (n - 14, 0x01)] {
                let mut bad = good.clone();
                bad[pos] ^= val;
                malf.push(if pk2.verify(msg, &bad, ctx) { '1' } else { '0' });
            }
            // two padding bytes that cancel under XOR, a constant-filled padding area
            let mut bad = good.clone(); bad[n - 12] = 0x5a; bad[n - 13] = 0x5a;
            malf.push(if pk2.verify(msg, &bad, ctx) && bad != good { '1' } else { '0' });
            h.update(malf.as_bytes());
            println!("MALF {} {}", $name, malf);
        }
        // a slow signing job: an accepted key with s1 = s2 = 0 and every t0 coefficient at a range end (mixed signs) makes most
        // attempts fail the ||c t0|| test, so signing needs hundreds to thousands of iterations - and still succeeds (or runs
        // into the loop limit) identically in every configuration
        {
            let eta_code: u32 = if api::SK_LEN == 4032 { 4 } else { 2 };
            let bits: usize = if api::SK_LEN == 4032 { 4 } else { 3 };
            let mut skb = [0u8; api::SK_LEN];
            for (i, b) in skb.iter_mut().enumerate().take(128) { *b = (i as u8).wrapping_mul(37) ^ 0x5c; }
            let t0_len = 416 * (($name).parse::<usize>().map(|n| match n { 44 => 4, 65 => 6, _ => 8 }).unwrap());
            let s_len = api::SK_LEN - 128 - t0_len;
            let (mut acc, mut nb, mut o) = (0u64, 0usize, 128usize);
            for _ in 0..(s_len * 8 / bits) {
                acc |= u64::from(eta_code) << nb; nb += bits;
                while nb >= 8 { skb[o] = (acc & 0xff) as u8; acc >>= 8; nb -= 8; o += 1; }
            }
            let mut x: u64 = 0x9e3779b97f4a7c15;
            let (mut acc, mut nb) = (0u64, 0usize);
            for _ in 0..(t0_len * 8 / 13) {
                x ^= x << 13; x ^= x >> 7; x ^= x << 17;
                acc |= (if x & 1 == 0 { 0u64 } else { 8191u64 }) << nb; nb += 13;
                while nb >= 8 { skb[o] = (acc & 0xff) as u8; acc >>= 8; nb -= 8; o += 1; }
            }
            let hk = api::PrivateKey::try_from_bytes(skb).unwrap();
            let mut slow = String::new();
            for m in 0u32..4 {
                let mut rng = Fixed([0u8; 32]);
                match hk.try_sign_with_rng(&mut rng, &m.to_le_bytes(), b"slow") {
                    Ok(sg) => { h.update(&sg); slow.push('s'); }
                    Err(_) => { h.update(&[0xee]); slow.push('e'); }
                }
            }
            println!("SLOW {} {}", $name, slow);
        }
        let d = h.finalize();
        let hex: String = d.iter().map(|b| format!("{:02x}", b)).collect();
        println!("KAT {} {}", $name, hex);
        if $bulk > 0 {
            let mut hb = Sha256::new();
            for i in 0..$bulk {
                let m = (i as u32).to_le_bytes();
                let mut rng = Fixed($rnd);
                let s = sk2.try_sign_with_rng(&mut rng, &m, ctx).unwrap();
                hb.update(&s);
                hb.update(&[pk2.verify(&m, &s, ctx) as u8]);
            }
            let d = hb.finalize();
            let hex: String = d.iter().map(|b| format!("{:02x}", b)).collect();
            println!("BULK {} {}", $name, hex);
        }
    }};
}

fn main() {
    let a: Vec<String> = std::env::args().collect();
    let sh = &a[1];
    let mut seed = [0u8; 32];
    for i in 0..32 {
        seed[i] = u8::from_str_radix(&sh[2 * i..2 * i + 2], 16).unwrap();
    }
    let mut hr = Sha256::new();
    hr.update(&seed);
    hr.update(b"rnd");
    let rnd: [u8; 32] = hr.finalize().into();
    let bulk: usize = if a.len() > 2 { a[2].parse().unwrap() } else { 0 };
    #[cfg(feature = "s44")]
    kat!(ml_dsa_44, "44", seed, rnd, bulk);
    #[cfg(feature = "s65")]
    kat!(ml_dsa_65, "65", seed, rnd, bulk);
    #[cfg(feature = "s87")]
    kat!(ml_dsa_87, "87", seed, rnd, bulk);
}
