//! Trace harness for C14: built with LLVM SanitizerCoverage (trace-pc-guard, trace-loads,
//! trace-stores); hashes the exact sequence of control-flow edges and load/store addresses executed
//! inside one call, so that two inputs can be compared as exact traces (not timings).
//!   request: op args...      reply: ok <edges> <mem_events> <hash>
//! Inputs live in fixed stack buffers of one non-inlined frame so that addresses are comparable
//! across calls within the process.
#![allow(deprecated, clippy::all, non_upper_case_globals)]
use fips204::verif_hooks as hk;
use rand_core::{CryptoRng, RngCore};
use std::io::{BufRead, Write};
use std::sync::atomic::{AtomicBool, AtomicU32, AtomicU64, Ordering};

static ON: AtomicBool = AtomicBool::new(false);
static HASH: AtomicU64 = AtomicU64::new(0xcbf29ce484222325);
static EDGES: AtomicU64 = AtomicU64::new(0);
static MEMS: AtomicU64 = AtomicU64::new(0);
static NEXT: AtomicU32 = AtomicU32::new(1);

#[inline(always)]
fn mix(kind: u64, v: u64) {
    let mut h = HASH.load(Ordering::Relaxed);
    h ^= kind;
    h = h.wrapping_mul(0x100000001b3);
    h ^= v;
    h = h.wrapping_mul(0x100000001b3);
    HASH.store(h, Ordering::Relaxed);
}

#[no_mangle]
pub unsafe extern "C" fn __sanitizer_cov_trace_pc_guard_init(start: *mut u32, stop: *mut u32) {
    let mut p = start;
    while p < stop {
        if *p == 0 {
            *p = NEXT.fetch_add(1, Ordering::Relaxed);
        }
        p = p.add(1);
    }
}
#[no_mangle]
pub unsafe extern "C" fn __sanitizer_cov_trace_pc_guard(guard: *mut u32) {
    if ON.load(Ordering::Relaxed) {
        EDGES.fetch_add(1, Ordering::Relaxed);
        mix(1, *guard as u64);
    }
}
macro_rules! memcb {
    ($($name:ident $k:expr),*) => { $(
        #[no_mangle]
        pub unsafe extern "C" fn $name(addr: *const u8) {
            if ON.load(Ordering::Relaxed) {
                MEMS.fetch_add(1, Ordering::Relaxed);
                mix($k, addr as u64);
            }
        }
    )* };
}
memcb!(__sanitizer_cov_load1 2, __sanitizer_cov_load2 2, __sanitizer_cov_load4 2, __sanitizer_cov_load8 2, __sanitizer_cov_load16 2,
       __sanitizer_cov_store1 3, __sanitizer_cov_store2 3, __sanitizer_cov_store4 3, __sanitizer_cov_store8 3, __sanitizer_cov_store16 3);

fn start() {
    HASH.store(0xcbf29ce484222325, Ordering::Relaxed);
    EDGES.store(0, Ordering::Relaxed);
    MEMS.store(0, Ordering::Relaxed);
    ON.store(true, Ordering::SeqCst);
}
fn stop() -> String {
    ON.store(false, Ordering::SeqCst);
    format!("ok {} {} {:016x}", EDGES.load(Ordering::Relaxed), MEMS.load(Ordering::Relaxed), HASH.load(Ordering::Relaxed))
}

struct FixedRng {
    data: [[u8; 32]; 2],
    idx: usize,
}
impl RngCore for FixedRng {
    fn next_u32(&mut self) -> u32 { panic!("infallible") }
    fn next_u64(&mut self) -> u64 { panic!("infallible") }
    fn fill_bytes(&mut self, _d: &mut [u8]) { panic!("infallible") }
    fn try_fill_bytes(&mut self, d: &mut [u8]) -> Result<(), rand_core::Error> {
        d.copy_from_slice(&self.data[self.idx & 1]);
        self.idx += 1;
        Ok(())
    }
}
impl CryptoRng for FixedRng {}

fn hexb(s: &str, out: &mut [u8]) {
    let b = s.as_bytes();
    for i in 0..out.len() {
        let h = |c: u8| match c { b'0'..=b'9' => c - 48, b'a'..=b'f' => c - 87, _ => 0 };
        out[i] = if 2 * i + 1 < b.len() { 16 * h(b[2 * i]) + h(b[2 * i + 1]) } else { 0 };
    }
}
fn polyv(s: &str, out: &mut [[i32; 256]]) {
    for (i, ps) in s.split(';').enumerate() {
        if i >= out.len() { break; }
        for (j, x) in ps.split(',').enumerate() {
            if j < 256 { out[i][j] = x.parse().unwrap(); }
        }
    }
}

// all state of one traced call lives in this frame; never inlined so that stack addresses repeat
#[inline(never)]
fn run(a: &[&str]) -> String {
    let mut seed = [0u8; 32];
    let mut rnd = [0u8; 32];
    let mut v8: [[i32; 256]; 8] = [[0; 256]; 8];
    let mut w8: [[i32; 256]; 8] = [[0; 256]; 8];
    let mut bytes = [0u8; 1024];
    let mut out = [0u8; 1024];
    let i32a = |i: usize| a[i].parse::<i32>().unwrap();
    match a[0] {
        "dudect" => {
            hexb(a[2], &mut seed);
            hexb(a[3], &mut rnd);
            let mut rng = FixedRng { data: [seed, rnd], idx: 0 };
            let msg = [7u8; 16];
            macro_rules! go { ($m:ident) => {{ start(); let r = fips204::$m::dudect_keygen_sign_with_rng(&mut rng, &msg); let s = stop(); core::hint::black_box(&r); s }}; }
            match a[1] { "44" => go!(ml_dsa_44), "65" => go!(ml_dsa_65), _ => go!(ml_dsa_87) }
        }
        // scalar kernels: op value...
        "cmod" => { let x = i32a(1); start(); let r = hk::center_mod(x); let s = stop(); core::hint::black_box(r); s }
        "pr32" => { let x = i32a(1); start(); let r = hk::partial_reduce32(x); let s = stop(); core::hint::black_box(r); s }
        "fr32" => { let x = i32a(1); start(); let r = hk::full_reduce32(x); let s = stop(); core::hint::black_box(r); s }
        "mont" => { let x = a[1].parse::<i64>().unwrap(); start(); let r = hk::mont_reduce(x); let s = stop(); core::hint::black_box(r); s }
        "pr64" => { let x = a[1].parse::<i64>().unwrap(); start(); let r = hk::partial_reduce64(x); let s = stop(); core::hint::black_box(r); s }
        "decompose" => { let (g, x) = (i32a(1), i32a(2)); start(); let r = hk::decompose(g, x); let s = stop(); core::hint::black_box(r); s }
        "highbits" => { let (g, x) = (i32a(1), i32a(2)); start(); let r = hk::high_bits(g, x); let s = stop(); core::hint::black_box(r); s }
        "lowbits" => { let (g, x) = (i32a(1), i32a(2)); start(); let r = hk::low_bits(g, x); let s = stop(); core::hint::black_box(r); s }
        "makehint" => { let (g, z, x) = (i32a(1), i32a(2), i32a(3)); start(); let r = hk::make_hint(g, z, x); let s = stop(); core::hint::black_box(r); s }
        "c3b" => { let b = [a[1].parse::<u8>().unwrap(), a[2].parse::<u8>().unwrap(), a[3].parse::<u8>().unwrap()]; start(); let r = hk::coeff_from_three_bytes::<true>(b); let s = stop(); core::hint::black_box(&r); s }
        "chb" => { let (eta, b) = (i32a(1), a[2].parse::<u8>().unwrap()); start(); let r = hk::coeff_from_half_byte::<true>(eta, b); let s = stop(); core::hint::black_box(&r); s }
        // vector kernels on 4 polynomials (K = L = 4 instantiation)
        "p2r" => { polyv(a[1], &mut v8[..4]); let v: &[[i32; 256]; 4] = (&v8[..4]).try_into().unwrap(); start(); let r = hk::power2round(v); let s = stop(); core::hint::black_box(&r); s }
        "infnorm" => { polyv(a[1], &mut v8[..4]); let v: &[[i32; 256]; 4] = (&v8[..4]).try_into().unwrap(); start(); let r = hk::infinity_norm(v); let s = stop(); core::hint::black_box(r); s }
        "inrange" => { polyv(a[1], &mut v8[..1]); let (lo, hi) = (i32a(2), i32a(3)); start(); let r = hk::is_in_range(&v8[0], lo, hi); let s = stop(); core::hint::black_box(r); s }
        "ntt" => { polyv(a[1], &mut v8[..4]); let v: &[[i32; 256]; 4] = (&v8[..4]).try_into().unwrap(); start(); let r = hk::ntt(v); let s = stop(); core::hint::black_box(&r); s }
        "invntt" => { polyv(a[1], &mut v8[..4]); let v: &[[i32; 256]; 4] = (&v8[..4]).try_into().unwrap(); start(); let r = hk::inv_ntt(v); let s = stop(); core::hint::black_box(&r); s }
        "tomont" => { polyv(a[1], &mut v8[..4]); let v: &[[i32; 256]; 4] = (&v8[..4]).try_into().unwrap(); start(); let r = hk::to_mont(v); let s = stop(); core::hint::black_box(&r); s }
        "matvec" => {
            polyv(a[1], &mut v8[..4]); polyv(a[2], &mut w8[..4]);
            let u: &[[i32; 256]; 4] = (&w8[..4]).try_into().unwrap();
            let row: [[i32; 256]; 4] = [v8[0], v8[1], v8[2], v8[3]];
            let m: [[[i32; 256]; 4]; 4] = [row, row, row, row];
            start(); let r = hk::mat_vec_mul(&m, u); let s = stop(); core::hint::black_box(&r); s
        }
        "bitpack" => { let (lo, hi, n) = (i32a(1), i32a(2), a[4].parse::<usize>().unwrap()); polyv(a[3], &mut v8[..1]); start(); hk::bit_pack(&v8[0], lo, hi, &mut out[..n]); let s = stop(); core::hint::black_box(&out); s }
        "w1enc" => { polyv(a[1], &mut v8[..4]); let v: &[[i32; 256]; 4] = (&v8[..4]).try_into().unwrap(); start(); hk::w1_encode::<4>(95232, v, &mut out[..768]); let s = stop(); core::hint::black_box(&out); s }
        "hintpack" => { polyv(a[1], &mut v8[..4]); let v: &[[i32; 256]; 4] = (&v8[..4]).try_into().unwrap(); start(); hk::hint_bit_pack::<true, 4>(80, v, &mut out[..84]); let s = stop(); core::hint::black_box(&out); s }
        "sib" => { hexb(a[1], &mut bytes[..32]); start(); let r = hk::sample_in_ball::<true>(39, &bytes[..32]); let s = stop(); core::hint::black_box(&r); s }
        "rejntt" => { hexb(a[1], &mut bytes[..34]); start(); let r = hk::rej_ntt_poly::<true>(&[&bytes[..34]]); let s = stop(); core::hint::black_box(&r); s }
        "rejbounded" => { let eta = i32a(1); hexb(a[2], &mut bytes[..66]); start(); let r = hk::rej_bounded_poly::<true>(eta, &[&bytes[..66]]); let s = stop(); core::hint::black_box(&r); s }
        "expmask" => { hexb(a[1], &mut bytes[..64]); let rho: &[u8; 64] = (&bytes[..64]).try_into().unwrap(); start(); let r = hk::expand_mask::<4>(1 << 17, rho, 0); let s = stop(); core::hint::black_box(&r); s }
        op => format!("unknown-op {}", op),
    }
}

fn main() {
    let stdin = std::io::stdin();
    let mut out = std::io::stdout().lock();
    for line in stdin.lock().lines() {
        let line = line.unwrap();
        let a: Vec<&str> = line.trim().split(' ').filter(|s| !s.is_empty()).collect();
        if a.is_empty() { continue; }
        let r = run(&a);
        writeln!(out, "{}", r).unwrap();
        out.flush().unwrap();
    }
}
