//! Line-protocol harness around the real crate (built from /repo's working tree with the
//! `verif-hooks` feature).  Same protocol as ocaml/driver.ml:
//!   request : op arg arg ...        reply : ok f1 f2 ... | err | panic
//! ints decimal; bytes hex ("-" = empty); polynomial = comma separated ints; vector = polys
//! joined by ';'; matrix = vectors joined by '|'.
#![allow(deprecated, clippy::all)]

use fips204::traits::{KeyGen, SerDes, Signer, Verifier};
use fips204::verif_hooks as hk;
use fips204::Ph;
use rand_core::{CryptoRng, RngCore};
use std::collections::VecDeque;
use std::io::{BufRead, Write};
use std::panic::{catch_unwind, AssertUnwindSafe};

type Poly = [i32; 256];

// ---------- parsing / printing ----------
fn hex(s: &str) -> Vec<u8> {
    if s == "-" {
        return vec![];
    }
    let b = s.as_bytes();
    (0..b.len() / 2)
        .map(|i| {
            let h = |c: u8| match c {
                b'0'..=b'9' => c - 48,
                b'a'..=b'f' => c - 87,
                b'A'..=b'F' => c - 55,
                _ => panic!("bad hex"),
            };
            16 * h(b[2 * i]) + h(b[2 * i + 1])
        })
        .collect()
}
fn tohex(b: &[u8]) -> String {
    if b.is_empty() {
        return "-".to_string();
    }
    b.iter().map(|x| format!("{:02x}", x)).collect()
}
fn poly(s: &str) -> Poly {
    let v: Vec<i32> = if s.is_empty() { vec![] } else { s.split(',').map(|x| x.parse::<i32>().expect("i32")).collect() };
    let mut p = [0i32; 256];
    assert!(v.len() == 256, "harness: polynomial needs 256 coefficients");
    p.copy_from_slice(&v);
    p
}
fn vecn<const N: usize>(s: &str) -> [Poly; N] {
    let parts: Vec<&str> = if s.is_empty() { vec![] } else { s.split(';').collect() };
    assert!(parts.len() == N, "harness: vector length");
    core::array::from_fn(|i| poly(parts[i]))
}
fn matn<const K: usize, const L: usize>(s: &str) -> [[Poly; L]; K] {
    let parts: Vec<&str> = s.split('|').collect();
    assert!(parts.len() == K, "harness: matrix rows");
    core::array::from_fn(|i| vecn::<L>(parts[i]))
}
fn spoly(p: &Poly) -> String { p.iter().map(|x| x.to_string()).collect::<Vec<_>>().join(",") }
fn svec(v: &[Poly]) -> String { v.iter().map(spoly).collect::<Vec<_>>().join(";") }
fn smat<const L: usize>(m: &[[Poly; L]]) -> String { m.iter().map(|r| svec(r)).collect::<Vec<_>>().join("|") }
fn b01(s: &str) -> bool { s == "1" }
fn s01(b: bool) -> &'static str { if b { "1" } else { "0" } }
fn arr<const N: usize>(v: &[u8]) -> [u8; N] {
    assert!(v.len() == N, "harness: byte array length");
    let mut a = [0u8; N];
    a.copy_from_slice(v);
    a
}
fn ph(s: &str) -> Ph {
    match s {
        "sha256" => Ph::SHA256,
        "sha512" => Ph::SHA512,
        "shake128" => Ph::SHAKE128,
        _ => panic!("harness: bad ph"),
    }
}

// ---------- scripted RNG: only try_fill_bytes is usable ----------
enum Reply {
    Fill(Vec<u8>),
    Fail(Vec<u8>),
    FailCode(u32, Vec<u8>),
}
struct ScriptRng {
    script: VecDeque<Reply>,
}
impl ScriptRng {
    fn new(s: &str) -> Self {
        let mut q = VecDeque::new();
        if s != "-" {
            for t in s.split(',') {
                if t.as_bytes()[0] == b'e' {
                    // e<code>:<hex> - fail with the given (operating-system style) error code after writing the bytes
                    let (c, body) = t[1..].split_once(':').expect("harness: e<code>:<hex>");
                    let b = if body.is_empty() { vec![] } else { hex(body) };
                    q.push_back(Reply::FailCode(c.parse::<u32>().expect("harness: error code"), b));
                    continue;
                }
                let body = &t[1..];
                let b = if body.is_empty() { vec![] } else { hex(body) };
                q.push_back(if t.as_bytes()[0] == b'f' { Reply::Fill(b) } else { Reply::Fail(b) });
            }
        }
        ScriptRng { script: q }
    }
}
fn rng_err() -> rand_core::Error { rand_core::Error::from(core::num::NonZeroU32::new(rand_core::Error::CUSTOM_START + 7).unwrap()) }
impl RngCore for ScriptRng {
    fn next_u32(&mut self) -> u32 { panic!("harness rng: infallible next_u32 called") }
    fn next_u64(&mut self) -> u64 { panic!("harness rng: infallible next_u64 called") }
    fn fill_bytes(&mut self, _d: &mut [u8]) { panic!("harness rng: infallible fill_bytes called") }
    fn try_fill_bytes(&mut self, dest: &mut [u8]) -> Result<(), rand_core::Error> {
        match self.script.pop_front() {
            Some(Reply::Fill(b)) => {
                if b.len() == dest.len() {
                    dest.copy_from_slice(&b);
                    Ok(())
                } else {
                    Err(rng_err())
                }
            }
            Some(Reply::Fail(b)) => {
                let n = b.len().min(dest.len());
                dest[..n].copy_from_slice(&b[..n]);
                Err(rng_err())
            }
            Some(Reply::FailCode(code, b)) => {
                let n = b.len().min(dest.len());
                dest[..n].copy_from_slice(&b[..n]);
                // code 0: an error that carries no numeric code at all (a boxed std error; Error::code() is None)
                match core::num::NonZeroU32::new(code) {
                    Some(c) => Err(rand_core::Error::from(c)),
                    None => Err(rand_core::Error::new("harness: code-less generator failure")),
                }
            }
            None => Err(rng_err()),
        }
    }
}
impl CryptoRng for ScriptRng {}

/// C16: largest number of sampled 8-byte words (every 128 bytes, non-zero only) of `image` found again at one aligned
/// position of the stack range [here, hi) - the caller's frames after a key was consumed by value.
#[inline(never)]
fn best_residue(image: &[u8], hi: usize) -> usize {
    let marker = 0u64;
    let lo = (core::ptr::addr_of!(marker) as usize + 7) & !7;
    let len = image.len();
    let samples: Vec<(usize, u64)> = (0..len / 8)
        .step_by(16)
        .map(|w| (w * 8, u64::from_ne_bytes(image[w * 8..w * 8 + 8].try_into().unwrap())))
        .filter(|&(_, v)| v != 0)
        .collect();
    let mut best = 0;
    let mut a = lo;
    while a + len <= hi {
        let hits = samples.iter().filter(|&&(off, v)| unsafe { core::ptr::read_volatile((a + off) as *const u64) } == v).count();
        best = best.max(hits);
        a += 8;
    }
    best
}

fn okerr<T>(r: Result<T, &'static str>, f: impl FnOnce(T) -> String) -> String {
    match r {
        Ok(v) => format!("ok {}", f(v)),
        Err(_) => "err".to_string(),
    }
}

// ---------- set-independent ops ----------
fn common(a: &[&str]) -> Option<String> {
    let i32a = |i: usize| a[i].parse::<i32>().expect("i32 arg");
    let i64a = |i: usize| a[i].parse::<i64>().expect("i64 arg");
    Some(match a[0] {
        "pr64" => format!("ok {}", hk::partial_reduce64(i64a(1))),
        "pr32" => format!("ok {}", hk::partial_reduce32(i32a(1))),
        "fr32" => format!("ok {}", hk::full_reduce32(i32a(1))),
        "cmod" => format!("ok {}", hk::center_mod(i32a(1))),
        "mont" => format!("ok {}", hk::mont_reduce(i64a(1))),
        "bitlen" => format!("ok {}", hk::bit_length(i32a(1))),
        "decompose" => {
            let (r1, r0) = hk::decompose(i32a(1), i32a(2));
            format!("ok {} {}", r1, r0)
        }
        "highbits" => format!("ok {}", hk::high_bits(i32a(1), i32a(2))),
        "lowbits" => format!("ok {}", hk::low_bits(i32a(1), i32a(2))),
        "makehint" => format!("ok {}", s01(hk::make_hint(i32a(1), i32a(2), i32a(3)))),
        "usehint" => format!("ok {}", hk::use_hint(i32a(1), i32a(2), i32a(3))),
        "c3b" => {
            let b = [a[2].parse::<u8>().unwrap(), a[3].parse::<u8>().unwrap(), a[4].parse::<u8>().unwrap()];
            let r = if b01(a[1]) { hk::coeff_from_three_bytes::<true>(b) } else { hk::coeff_from_three_bytes::<false>(b) };
            okerr(r, |v| v.to_string())
        }
        "chb" => {
            let (eta, b) = (i32a(2), a[3].parse::<u8>().unwrap());
            let r = if b01(a[1]) { hk::coeff_from_half_byte::<true>(eta, b) } else { hk::coeff_from_half_byte::<false>(eta, b) };
            okerr(r, |v| v.to_string())
        }
        "zetas" => format!("ok {}", spoly(&hk::zeta_table_mont())),
        "inrange" => format!("ok {}", s01(hk::is_in_range(&poly(a[1]), i32a(2), i32a(3)))),
        "bitpack" => {
            let n: usize = a[4].parse().unwrap();
            let mut out = vec![0u8; n];
            hk::bit_pack(&poly(a[3]), i32a(1), i32a(2), &mut out);
            format!("ok {}", tohex(&out))
        }
        "sbitpack" => {
            let n: usize = a[3].parse().unwrap();
            let mut out = vec![0u8; n];
            hk::simple_bit_pack(&poly(a[2]), i32a(1), &mut out);
            format!("ok {}", tohex(&out))
        }
        "bitunpack" => okerr(hk::bit_unpack(&hex(a[3]), i32a(1), i32a(2)), |p| spoly(&p)),
        "sbitunpack" => okerr(hk::simple_bit_unpack(&hex(a[2]), i32a(1)), |p| spoly(&p)),
        "sib" => {
            let r = if b01(a[1]) { hk::sample_in_ball::<true>(i32a(2), &hex(a[3])) } else { hk::sample_in_ball::<false>(i32a(2), &hex(a[3])) };
            format!("ok {}", spoly(&r))
        }
        // mining aid (never used by a check): sibtail <tau> <c_tilde_len> <salt-hex> <start> <count>: among the count seeds
        // c_tilde = LE64(i) || salt.. , the one for which SampleInBall (FIPS 204 Alg 29, computed here from the definition with
        // SHAKE256, not by the crate) consumes the most index-candidate bytes; prints `ok <max bytes> <c_tilde>`
        "sibtail" => {
            use sha3::digest::{ExtendableOutput, Update, XofReader};
            let tau: usize = a[1].parse().unwrap();
            let clen: usize = a[2].parse().unwrap();
            let salt = hex(a[3]);
            let (start, count) = (a[4].parse::<u64>().unwrap(), a[5].parse::<u64>().unwrap());
            let mut best = (0usize, vec![0u8; clen]);
            let mut buf = [0u8; 256];
            for i in start..start + count {
                let mut ct = vec![0u8; clen];
                ct[..8].copy_from_slice(&i.to_le_bytes());
                for (j, b) in ct[8..].iter_mut().enumerate() { *b = salt[j % salt.len()]; }
                let mut h = sha3::Shake256::default();
                h.update(&ct);
                let mut x = h.finalize_xof();
                x.read(&mut buf);
                let mut pos = 8usize;      // the first 8 bytes are the sign bits
                let mut used = 0usize;
                let mut ok = true;
                for idx in (256 - tau)..256 {
                    loop {
                        if pos >= buf.len() { ok = false; break; }
                        let j = buf[pos] as usize; pos += 1; used += 1;
                        if j <= idx { break; }
                    }
                    if !ok { break; }
                }
                if !ok { used = buf.len(); }
                if used > best.0 { best = (used, ct); }
            }
            format!("ok {} {}", best.0, tohex(&best.1))
        }
        "rejntt" => {
            let s = hex(a[2]);
            let r = if b01(a[1]) { hk::rej_ntt_poly::<true>(&[&s]) } else { hk::rej_ntt_poly::<false>(&[&s]) };
            format!("ok {}", spoly(&r))
        }
        "rejbounded" => {
            let s = hex(a[3]);
            let r = if b01(a[1]) { hk::rej_bounded_poly::<true>(i32a(2), &[&s]) } else { hk::rej_bounded_poly::<false>(i32a(2), &[&s]) };
            format!("ok {}", spoly(&r))
        }
        "hashmsg" => {
            let mut phm = [0u8; 64];
            let (oid, n) = hk::hash_message(&hex(a[2]), &ph(a[1]), &mut phm);
            format!("ok {} {}", tohex(&oid), tohex(&phm[..n]))
        }
        "shake256" => {
            use sha3::digest::{ExtendableOutput, Update, XofReader};
            let mut h = sha3::Shake256::default();
            h.update(&hex(a[1]));
            let mut out = vec![0u8; a[2].parse().unwrap()];
            h.finalize_xof().read(&mut out);
            format!("ok {}", tohex(&out))
        }
        "shake128" => {
            use sha3::digest::{ExtendableOutput, Update, XofReader};
            let mut h = sha3::Shake128::default();
            h.update(&hex(a[1]));
            let mut out = vec![0u8; a[2].parse().unwrap()];
            h.finalize_xof().read(&mut out);
            format!("ok {}", tohex(&out))
        }
        "sha256" => {
            use sha2::Digest;
            format!("ok {}", tohex(&sha2::Sha256::digest(&hex(a[1]))))
        }
        "sha512" => {
            use sha2::Digest;
            format!("ok {}", tohex(&sha2::Sha512::digest(&hex(a[1]))))
        }
        _ => return None,
    })
}

// ---------- per-set ops ----------
macro_rules! set_mod {
    ($name:ident, $m:ident, $K:expr, $L:expr, $ETA:expr, $G1:expr, $G2:expr, $OMEGA:expr, $TAU:expr, $LD4:expr, $W1:expr) => {
        mod $name {
            use super::*;
            use fips204::$m as api;
            const K: usize = $K;
            const L: usize = $L;
            const ETA: i32 = $ETA;
            const GAMMA1: i32 = $G1;
            const GAMMA2: i32 = $G2;
            const OMEGA: i32 = $OMEGA;
            #[allow(dead_code)]
            const TAU: i32 = $TAU;
            const LAMBDA_DIV4: usize = $LD4;
            const W1_LEN: usize = $W1;
            const PK_LEN: usize = api::PK_LEN;
            const SK_LEN: usize = api::SK_LEN;
            const SIG_LEN: usize = api::SIG_LEN;

            fn pk_dump(pk: &api::PublicKey) -> String {
                let (rho, tr, t) = hk::dump_public_key(pk);
                format!("{} {} {}", tohex(&rho), tohex(&tr), svec(&t))
            }
            fn sk_dump(sk: &api::PrivateKey) -> String {
                let (rho, k, tr, s1, s2, t0) = hk::dump_private_key(sk);
                format!("{} {} {} {} {} {}", tohex(&rho), tohex(&k), tohex(&tr), svec(&s1), svec(&s2), svec(&t0))
            }
            fn split(s: &str) -> (&str, &str) {
                let i = s.find(':').expect("harness: bad key spec");
                (&s[..i], &s[i + 1..])
            }
            fn gen(xi: &str) -> (api::PublicKey, api::PrivateKey) { api::KG::keygen_from_seed(&arr::<32>(&hex(xi))) }
            fn sk_of_spec(s: &str) -> Result<api::PrivateKey, &'static str> {
                match split(s) {
                    ("b", h) => api::PrivateKey::try_from_bytes(arr::<SK_LEN>(&hex(h))),
                    ("s", xi) => Ok(gen(xi).1),
                    ("r", xi) => api::PrivateKey::try_from_bytes(gen(xi).1.into_bytes()),
                    _ => panic!("harness: bad sk spec"),
                }
            }
            fn pk_of_spec(s: &str) -> Result<api::PublicKey, &'static str> {
                match split(s) {
                    ("b", h) => api::PublicKey::try_from_bytes(arr::<PK_LEN>(&hex(h))),
                    ("s", xi) => Ok(gen(xi).0),
                    ("r", xi) => api::PublicKey::try_from_bytes(gen(xi).0.into_bytes()),
                    ("d", xi) => Ok(gen(xi).1.get_public_key()),
                    ("e", xi) => Ok(sk_of_spec(&format!("r:{}", xi))?.get_public_key()),
                    ("f", xi) => api::PublicKey::try_from_bytes(gen(xi).1.get_public_key().into_bytes()),
                    ("db", h) => Ok(api::PrivateKey::try_from_bytes(arr::<SK_LEN>(&hex(h)))?.get_public_key()),
                    _ => panic!("harness: bad pk spec"),
                }
            }

            pub fn dispatch(a: &[&str]) -> String {
                let i32a = |i: usize| a[i].parse::<i32>().expect("i32 arg");
                match a[0] {
                    "p2r" => {
                        let (r1, r0) = hk::power2round(&vecn::<K>(a[2]));
                        format!("ok {} {}", svec(&r1), svec(&r0))
                    }
                    "infnorm_k" => format!("ok {}", hk::infinity_norm(&vecn::<K>(a[2]))),
                    "infnorm_l" => format!("ok {}", hk::infinity_norm(&vecn::<L>(a[2]))),
                    "tomont_l" => format!("ok {}", svec(&hk::to_mont(&vecn::<L>(a[2])))),
                    "ntt_l" => format!("ok {}", svec(&hk::ntt(&vecn::<L>(a[2])))),
                    "invntt_k" => format!("ok {}", svec(&hk::inv_ntt(&vecn::<K>(a[2])))),
                    "matvec" => format!("ok {}", svec(&hk::mat_vec_mul(&matn::<K, L>(a[2]), &vecn::<L>(a[3])))),
                    "addvec_k" => format!("ok {}", svec(&hk::add_vector_ntt(&vecn::<K>(a[2]), &vecn::<K>(a[3])))),
                    "hintpack" => {
                        let mut y = vec![0u8; OMEGA as usize + K];
                        let h = vecn::<K>(a[3]);
                        if b01(a[2]) { hk::hint_bit_pack::<true, K>(OMEGA, &h, &mut y) } else { hk::hint_bit_pack::<false, K>(OMEGA, &h, &mut y) };
                        format!("ok {}", tohex(&y))
                    }
                    "hintunpack" => okerr(hk::hint_bit_unpack::<K>(OMEGA, &hex(a[2])), |h| svec(&h)),
                    "pkenc" => format!("ok {}", tohex(&hk::pk_encode::<K, PK_LEN>(&arr::<32>(&hex(a[2])), &vecn::<K>(a[3])))),
                    "pkdec" => okerr(hk::pk_decode::<K, PK_LEN>(&arr::<PK_LEN>(&hex(a[2]))), |(rho, t1)| format!("{} {}", tohex(&rho), svec(&t1))),
                    "skenc" => format!(
                        "ok {}",
                        tohex(&hk::sk_encode::<K, L, SK_LEN>(
                            ETA, &arr::<32>(&hex(a[2])), &arr::<32>(&hex(a[3])), &arr::<64>(&hex(a[4])),
                            &vecn::<L>(a[5]), &vecn::<K>(a[6]), &vecn::<K>(a[7])
                        ))
                    ),
                    "skdec" => okerr(hk::sk_decode::<K, L, SK_LEN>(ETA, &arr::<SK_LEN>(&hex(a[2]))), |(rho, k, tr, s1, s2, t0)| {
                        format!("{} {} {} {} {} {}", tohex(&rho), tohex(&k), tohex(&tr), svec(&s1), svec(&s2), svec(&t0))
                    }),
                    "sigenc" => {
                        let c = arr::<LAMBDA_DIV4>(&hex(a[3]));
                        let z = vecn::<L>(a[4]);
                        let h = vecn::<K>(a[5]);
                        let s = if b01(a[2]) {
                            hk::sig_encode::<true, K, L, LAMBDA_DIV4, SIG_LEN>(GAMMA1, OMEGA, &c, &z, &h)
                        } else {
                            hk::sig_encode::<false, K, L, LAMBDA_DIV4, SIG_LEN>(GAMMA1, OMEGA, &c, &z, &h)
                        };
                        format!("ok {}", tohex(&s))
                    }
                    "sigdec" => okerr(
                        hk::sig_decode::<K, L, LAMBDA_DIV4, SIG_LEN>(GAMMA1, OMEGA, &arr::<SIG_LEN>(&hex(a[2]))),
                        |(c, z, h)| format!("{} {} {}", tohex(&c), svec(&z), svec(&h.expect("harness: h None"))),
                    ),
                    "w1enc" => {
                        let mut out = vec![0u8; W1_LEN];
                        hk::w1_encode::<K>(GAMMA2, &vecn::<K>(a[2]), &mut out);
                        format!("ok {}", tohex(&out))
                    }
                    "expa" => {
                        let rho = arr::<32>(&hex(a[3]));
                        let m = if b01(a[2]) { hk::expand_a::<true, K, L>(&rho) } else { hk::expand_a::<false, K, L>(&rho) };
                        format!("ok {}", smat(&m))
                    }
                    "exps" => {
                        let rho = arr::<64>(&hex(a[3]));
                        let (s1, s2) = if b01(a[2]) { hk::expand_s::<true, K, L>(ETA, &rho) } else { hk::expand_s::<false, K, L>(ETA, &rho) };
                        format!("ok {} {}", svec(&s1), svec(&s2))
                    }
                    "expmask" => format!("ok {}", svec(&hk::expand_mask::<L>(GAMMA1, &arr::<64>(&hex(a[2])), i32a(3) as u16))),
                    "keygen_seed" => {
                        let (pk, sk) = gen(a[2]);
                        let (pd, sd) = (pk_dump(&pk), sk_dump(&sk));
                        format!("ok {} {} {} {}", tohex(&pk.into_bytes()), tohex(&sk.into_bytes()), pd, sd)
                    }
                    // the entry points that draw from the operating system (feature default-rng): nothing can be compared byte for
                    // byte, but the results must be fresh, self-consistent and not those of a guessable draw
                    "os_keygen" => {
                        let r = api::try_keygen();
                        okerr(r, |(pk, sk)| format!("{} {}", tohex(&pk.into_bytes()), tohex(&sk.into_bytes())))
                    }
                    "os_kg_keygen" => {
                        let r = api::KG::try_keygen();
                        okerr(r, |(pk, sk)| format!("{} {}", tohex(&pk.into_bytes()), tohex(&sk.into_bytes())))
                    }
                    // the key OBJECT as a value: a clone, and an object overwritten in place with clone_from, must sign exactly
                    // like the key they copy.  sign_copy <set> <sk-spec of the copied key> <sk-spec of the key held before> <script> <msg> <ctx> <mode>
                    "sign_copy" => match (sk_of_spec(a[2]), sk_of_spec(a[3])) {
                        (Ok(src), Ok(old)) => {
                            let (msg, ctx) = (hex(a[5]), hex(a[6]));
                            let mut slot = old;
                            slot.clone_from(&src);
                            let c2 = src.clone();
                            let mut outs = Vec::new();
                            for k in [&slot, &c2] {
                                let mut rng = ScriptRng::new(a[4]);
                                let r = match a[7] {
                                    "pure" => k.try_sign_with_rng(&mut rng, &msg, &ctx),
                                    p => k.try_hash_sign_with_rng(&mut rng, &msg, &ctx, &ph(p)),
                                };
                                outs.push(okerr(r, |s| tohex(&s)));
                            }
                            let pkc = slot.get_public_key().into_bytes();
                            format!("{} | {} | {} | {}", outs[0], outs[1], tohex(&slot.into_bytes()), tohex(&pkc))
                        }
                        _ => "key err".to_string(),
                    },
                    // bulk sign -> verify under one key: messages LE64(i), rnd = LE64(i) || a7.. ; reports the first i whose honest
                    // signature does not verify.  sigscan <set> <xi> <start> <count> <mode>
                    "sigscan" => {
                        let (pk, sk) = gen(a[2]);
                        let (start, count) = (a[3].parse::<u64>().unwrap(), a[4].parse::<u64>().unwrap());
                        let mut bad: Option<String> = None;
                        for i in start..start + count {
                            let msg = i.to_le_bytes();
                            let mut rnd = [0xa7u8; 32];
                            rnd[..8].copy_from_slice(&msg);
                            let mut rng = ScriptRng { script: VecDeque::from(vec![Reply::Fill(rnd.to_vec())]) };
                            let (sig, ok) = match a[5] {
                                "pure" => match sk.try_sign_with_rng(&mut rng, &msg, b"sc") { Ok(s) => (s, true), Err(_) => ([0u8; SIG_LEN], false) },
                                p => match sk.try_hash_sign_with_rng(&mut rng, &msg, b"sc", &ph(p)) { Ok(s) => (s, true), Err(_) => ([0u8; SIG_LEN], false) },
                            };
                            let v = ok && match a[5] { "pure" => pk.verify(&msg, &sig, b"sc"), p => pk.hash_verify(&msg, &sig, b"sc", &ph(p)) };
                            if !v { bad = Some(format!("i={} sign_ok={}", i, ok)); break; }
                        }
                        match bad { None => format!("ok none {}", count), Some(b) => format!("ok fail {}", b) }
                    }
                    // a message of <len> bytes (all <fill>) built here - far too long for the line protocol - verified (pure mode)
                    // under the all-zero public key with the all-zero signature: FIPS 204 puts no bound on the message length.
                    // bigverify <set> <len> <fill-hex-byte>
                    "bigverify" => {
                        let len: usize = a[2].parse().unwrap();
                        let fill = hex(a[3])[0];
                        let msg = vec![fill; len];
                        let pk = api::PublicKey::try_from_bytes([0u8; PK_LEN]).unwrap();
                        let r = pk.verify(&msg, &[0u8; SIG_LEN], b"");
                        format!("ok {}", s01(r))
                    }
                    // C16: a private key whose life ends inside into_bytes(self) (the only API that consumes a key by value) must be
                    // wiped like a dropped one: the boxed key is consumed, then the caller's stack is searched for an image of it
                    "consume_scan" => {
                        #[inline(never)]
                        fn consume(key: Box<api::PrivateKey>, hi: usize) -> (usize, usize) {
                            let len = core::mem::size_of::<api::PrivateKey>();
                            let mut image = vec![0u8; len];
                            unsafe { core::ptr::copy_nonoverlapping(core::ptr::addr_of!(*key).cast::<u8>(), image.as_mut_ptr(), len) };
                            let live = image.iter().filter(|&&b| b != 0).count();
                            let skb = (*key).into_bytes();
                            let r = best_residue(&image, hi);
                            assert!(api::PrivateKey::try_from_bytes(skb).is_ok());
                            (r, live)
                        }
                        #[inline(never)]
                        fn make(xi: &str) -> Box<api::PrivateKey> { Box::new(gen(xi).1) }
                        let anchor = 0u64;
                        let hi = core::ptr::addr_of!(anchor) as usize & !7;
                        let (r, live) = consume(make(a[2]), hi);
                        format!("ok {} {}", r, live)
                    }
                    // every message length 0..=<maxmsg> with a context of <ctxlen> bytes: sign (rnd fixed) and verify; first failure.
                    // lengrid <set> <xi> <ctxlen> <maxmsg> <mode>
                    "lengrid" => {
                        let (pk, sk) = gen(a[2]);
                        let (cl, mm) = (a[3].parse::<usize>().unwrap(), a[4].parse::<usize>().unwrap());
                        let ctx = vec![0x3cu8; cl];
                        let mut bad: Option<String> = None;
                        for ml in 0..=mm {
                            let msg: Vec<u8> = (0..ml).map(|i| (i as u8) ^ 0x5a).collect();
                            let mut rng = ScriptRng { script: VecDeque::from(vec![Reply::Fill(vec![0x77u8; 32])]) };
                            let r = match a[5] {
                                "pure" => sk.try_sign_with_rng(&mut rng, &msg, &ctx),
                                p => sk.try_hash_sign_with_rng(&mut rng, &msg, &ctx, &ph(p)),
                            };
                            let v = match r {
                                Ok(sig) => match a[5] { "pure" => pk.verify(&msg, &sig, &ctx), p => pk.hash_verify(&msg, &sig, &ctx, &ph(p)) },
                                Err(_) => false,
                            };
                            if !v { bad = Some(format!("msglen={}", ml)); break; }
                        }
                        match bad { None => format!("ok none {}", mm + 1), Some(b) => format!("ok fail {}", b) }
                    }
                    "os_sign" => match sk_of_spec(a[2]) {
                        Ok(sk) => {
                            let (msg, ctx) = (hex(a[3]), hex(a[4]));
                            let r = match a[5] {
                                "pure" => sk.try_sign(&msg, &ctx),
                                p => sk.try_hash_sign(&msg, &ctx, &ph(p)),
                            };
                            okerr(r, |s| tohex(&s))
                        }
                        Err(_) => "key err".to_string(),
                    },
                    "keygen_rng" => {
                        let mut rng = ScriptRng::new(a[2]);
                        let r = api::try_keygen_with_rng(&mut rng);
                        let left = rng.script.len();
                        format!("{} rng={}", okerr(r, |(pk, sk)| format!("{} {}", tohex(&pk.into_bytes()), tohex(&sk.into_bytes()))), left)
                    }
                    "sign" => match sk_of_spec(a[2]) {
                        Ok(sk) => {
                            let mut rng = ScriptRng::new(a[3]);
                            let (msg, ctx) = (hex(a[4]), hex(a[5]));
                            let r = match a[6] {
                                "pure" => sk.try_sign_with_rng(&mut rng, &msg, &ctx),
                                "internal" => {
                                    let rnd = match rng.script.pop_front() {
                                        Some(Reply::Fill(b)) => arr::<32>(&b),
                                        _ => panic!("harness: internal sign needs one fill"),
                                    };
                                    api::_internal_sign(&sk, &msg, &ctx, rnd)
                                }
                                p => sk.try_hash_sign_with_rng(&mut rng, &msg, &ctx, &ph(p)),
                            };
                            format!("{} rng={}", okerr(r, |s| tohex(&s)), rng.script.len())
                        }
                        Err(_) => "key err".to_string(),
                    },
                    "verify" => match pk_of_spec(a[2]) {
                        Ok(pk) => {
                            let (msg, sig, ctx) = (hex(a[3]), arr::<SIG_LEN>(&hex(a[4])), hex(a[5]));
                            let r = match a[6] {
                                "pure" => pk.verify(&msg, &sig, &ctx),
                                "internal" => api::_internal_verify(&pk, &msg, &sig, &ctx),
                                p => pk.hash_verify(&msg, &sig, &ctx, &ph(p)),
                            };
                            format!("ok {}", s01(r))
                        }
                        Err(_) => "key err".to_string(),
                    },
                    // exhaustive cross-interpretation test over a tiny alphabet: sign every (ctx, M, mode) with ctx, M short strings
                    // over the given alphabet, then verify every signature under every OTHER (ctx', M', mode'); any acceptance is a
                    // binding failure.  xbind <set> <xi> <alphabet-hex> <max_ctx_len> <max_msg_len>
                    "xbind" => {
                        let (_pk, sk) = gen(a[2]);
                        let pk = sk.get_public_key();
                        let alpha = hex(a[3]);
                        let (mc, mm) = (a[4].parse::<usize>().unwrap(), a[5].parse::<usize>().unwrap());
                        fn strings(alpha: &[u8], maxlen: usize) -> Vec<Vec<u8>> {
                            let mut out: Vec<Vec<u8>> = vec![vec![]];
                            let mut cur: Vec<Vec<u8>> = vec![vec![]];
                            for _ in 0..maxlen {
                                let mut nxt = vec![];
                                for s in &cur { for &b in alpha { let mut t = s.clone(); t.push(b); nxt.push(t); } }
                                out.extend(nxt.iter().cloned());
                                cur = nxt;
                            }
                            out
                        }
                        let ctxs = strings(&alpha, mc);
                        let msgs = strings(&alpha, mm);
                        let modes = ["pure", "sha256", "sha512", "shake128"];
                        let mut items: Vec<(usize, usize, usize, [u8; SIG_LEN])> = vec![];
                        for (ci, c) in ctxs.iter().enumerate() {
                            for (mi, m) in msgs.iter().enumerate() {
                                for (di, d) in modes.iter().enumerate() {
                                    if di > 1 && (ci + mi) % 3 != 0 { continue; }   // thin out two of the hash modes
                                    let mut rng = ScriptRng::new(&format!("f{}", tohex(&[(ci * 7 + mi) as u8; 32])));
                                    let r = if *d == "pure" { sk.try_sign_with_rng(&mut rng, m, c) } else { sk.try_hash_sign_with_rng(&mut rng, m, c, &ph(d)) };
                                    match r { Ok(sg) => items.push((ci, mi, di, sg)), Err(_) => return "ok sign-err".to_string() }
                                }
                            }
                        }
                        let mut checked = 0usize;
                        for (ci, mi, di, sg) in &items {
                            for (cj, c2) in ctxs.iter().enumerate() {
                                for (mj, m2) in msgs.iter().enumerate() {
                                    for (dj, d2) in modes.iter().enumerate() {
                                        let same = cj == *ci && mj == *mi && dj == *di;
                                        let v = if *d2 == "pure" { pk.verify(m2, sg, c2) } else { pk.hash_verify(m2, sg, c2, &ph(d2)) };
                                        checked += 1;
                                        if v != same {
                                            return format!("ok collision signed=({},{},{}) verified=({},{},{}) accept={}",
                                                tohex(&ctxs[*ci]), tohex(&msgs[*mi]), modes[*di], tohex(c2), tohex(m2), d2, s01(v));
                                        }
                                    }
                                }
                            }
                        }
                        format!("ok none {} {}", items.len(), checked)
                    }
                    // bulk self-consistency over many seeds (no oracle needed): generated vs derived vs round-tripped keys,
                    // byte equality and sign->verify under every provenance; reports the first seed that breaks something.
                    // keyscan <set> <salt-hex-24-bytes> <start> <count> <do_sign 0|1>
                    "keyscan" => {
                        let salt = hex(a[2]);
                        let (start, count, do_sign) = (a[3].parse::<u64>().unwrap(), a[4].parse::<u64>().unwrap(), a[5] == "1");
                        let mut bad: Option<String> = None;
                        for i in start..start + count {
                            let mut xi = [0u8; 32];
                            xi[..8].copy_from_slice(&i.to_le_bytes());
                            xi[8..].copy_from_slice(&salt[..24]);
                            let (pk, sk) = api::KG::keygen_from_seed(&xi);
                            let pkb = pk.clone().into_bytes();
                            let skb = sk.clone().into_bytes();
                            let fail = |what: &str| Some(format!("{} xi={}", what, tohex(&xi)));
                            let d = sk.get_public_key().into_bytes();
                            if d != pkb { bad = fail("derived-differs"); break; }
                            let pk2 = match api::PublicKey::try_from_bytes(pkb) { Ok(k) => k, Err(_) => { bad = fail("pk-rejected"); break; } };
                            if pk2.clone().into_bytes() != pkb { bad = fail("pk-roundtrip-differs"); break; }
                            let sk2 = match api::PrivateKey::try_from_bytes(skb) { Ok(k) => k, Err(_) => { bad = fail("sk-rejected"); break; } };
                            if sk2.clone().into_bytes() != skb { bad = fail("sk-roundtrip-differs"); break; }
                            if sk2.get_public_key().into_bytes() != pkb { bad = fail("derived-from-roundtripped-differs"); break; }
                            if do_sign {
                                let msg = i.to_le_bytes();
                                let ctx = [i as u8; 3];
                                let rnd = [(i >> 3) as u8; 32];
                                let sig = match api::_internal_sign(&sk, &msg, &ctx, rnd) { Ok(s) => s, Err(_) => { bad = fail("sign-err"); break; } };
                                let sig2 = match api::_internal_sign(&sk2, &msg, &ctx, rnd) { Ok(s) => s, Err(_) => { bad = fail("sign-err-rt"); break; } };
                                if sig != sig2 { bad = fail("roundtripped-sk-signs-differently"); break; }
                                if !api::_internal_verify(&pk, &msg, &sig, &ctx) { bad = fail("honest-rejected-generated-pk"); break; }
                                if !api::_internal_verify(&pk2, &msg, &sig, &ctx) { bad = fail("honest-rejected-roundtripped-pk"); break; }
                                if !api::_internal_verify(&sk.get_public_key(), &msg, &sig, &ctx) { bad = fail("honest-rejected-derived-pk"); break; }
                            }
                        }
                        match bad { Some(b) => format!("ok {}", b), None => format!("ok none {}", count) }
                    }
                    // every single-bit flip of signature (s), public key (p), message (m), context (c): list those that still verify
                    "flipscan" => {
                        let (pkb, msg, sigb, ctx) = (hex(a[2]), hex(a[3]), hex(a[4]), hex(a[5]));
                        let mode = a[6];
                        let run = |pkb: &[u8], msg: &[u8], sigb: &[u8], ctx: &[u8]| -> bool {
                            match api::PublicKey::try_from_bytes(arr::<PK_LEN>(pkb)) {
                                Ok(pk) => {
                                    let sig = arr::<SIG_LEN>(sigb);
                                    match mode {
                                        "pure" => pk.verify(msg, &sig, ctx),
                                        "internal" => api::_internal_verify(&pk, msg, &sig, ctx),
                                        p => pk.hash_verify(msg, &sig, ctx, &ph(p)),
                                    }
                                }
                                Err(_) => false,
                            }
                        };
                        if !run(&pkb, &msg, &sigb, &ctx) {
                            return "ok base-rejected".to_string();
                        }
                        let mut acc: Vec<String> = vec![];
                        let mut total = 0usize;
                        let pk0 = api::PublicKey::try_from_bytes(arr::<PK_LEN>(&pkb)).expect("harness: pk");
                        for pos in 0..sigb.len() * 8 {
                            let mut b = sigb.clone();
                            b[pos / 8] ^= 1 << (pos % 8);
                            let sig = arr::<SIG_LEN>(&b);
                            let r = match mode {
                                "pure" => pk0.verify(&msg, &sig, &ctx),
                                "internal" => api::_internal_verify(&pk0, &msg, &sig, &ctx),
                                p => pk0.hash_verify(&msg, &sig, &ctx, &ph(p)),
                            };
                            total += 1;
                            if r { acc.push(format!("s{}", pos)); }
                        }
                        for pos in 0..pkb.len() * 8 {
                            let mut b = pkb.clone();
                            b[pos / 8] ^= 1 << (pos % 8);
                            total += 1;
                            if run(&b, &msg, &sigb, &ctx) { acc.push(format!("p{}", pos)); }
                        }
                        for pos in 0..msg.len() * 8 {
                            let mut b = msg.clone();
                            b[pos / 8] ^= 1 << (pos % 8);
                            total += 1;
                            if run(&pkb, &b, &sigb, &ctx) { acc.push(format!("m{}", pos)); }
                        }
                        for pos in 0..ctx.len() * 8 {
                            let mut b = ctx.clone();
                            b[pos / 8] ^= 1 << (pos % 8);
                            total += 1;
                            if run(&pkb, &msg, &sigb, &b) { acc.push(format!("c{}", pos)); }
                        }
                        format!("ok {} {}", total, if acc.is_empty() { "-".to_string() } else { acc.join(",") })
                    }
                    "sk_load" => okerr(sk_of_spec(a[2]), |sk| sk_dump(&sk)),
                    "pk_load" => okerr(pk_of_spec(a[2]), |pk| pk_dump(&pk)),
                    "sk_bytes" => match sk_of_spec(a[2]) {
                        Ok(sk) => format!("ok {}", tohex(&sk.into_bytes())),
                        Err(_) => "key err".to_string(),
                    },
                    "pk_bytes" => match pk_of_spec(a[2]) {
                        Ok(pk) => format!("ok {}", tohex(&pk.into_bytes())),
                        Err(_) => "key err".to_string(),
                    },
                    "dudect" => {
                        let mut rng = ScriptRng::new(a[2]);
                        let r = api::dudect_keygen_sign_with_rng(&mut rng, &hex(a[3]));
                        format!("{} rng={}", okerr(r, |s| tohex(&s)), rng.script.len())
                    }
                    // drop / memory ops (C16): bytes of the object read after ManuallyDrop::drop
                    "drop_sk" => match sk_of_spec(a[2]) {
                        Ok(sk) => {
                            let n = core::mem::size_of::<api::PrivateKey>();
                            let mut md = core::mem::ManuallyDrop::new(sk);
                            let p = (&*md) as *const api::PrivateKey as *const u8;
                            let before = (0..n).filter(|&i| unsafe { core::ptr::read_volatile(p.add(i)) } != 0).count();
                            unsafe { core::mem::ManuallyDrop::drop(&mut md) };
                            let nz: Vec<usize> = (0..n).filter(|&i| unsafe { core::ptr::read_volatile(p.add(i)) } != 0).collect();
                            format!("ok size={} nonzero_before={} nonzero_after={} first={}", n, before, nz.len(), nz.first().map_or(-1i64, |&x| x as i64))
                        }
                        Err(_) => "key err".to_string(),
                    },
                    // the same probe with the key object placed at a chosen offset (0, 8, 16, .. 56) inside a 64-byte aligned arena: a wipe
                    // that assumes more alignment than the type guarantees (8) leaves the ends of the polynomials behind
                    // drop_sk_at <set> <sk-spec> <offset> / drop_pk_at <set> <pk-spec> <offset>
                    "drop_sk_at" | "drop_pk_at" => {
                        #[repr(align(64))]
                        struct Arena([u8; 40960]);
                        let mut arena = Box::new(Arena([0u8; 40960]));
                        let off: usize = a[3].parse().unwrap();
                        let base = unsafe { arena.0.as_mut_ptr().add(off) };
                        macro_rules! probe { ($ty:ty, $val:expr) => {{
                            let n = core::mem::size_of::<$ty>();
                            assert!(off % core::mem::align_of::<$ty>() == 0 && off + n <= 40960);
                            let slot = base as *mut $ty;
                            unsafe { core::ptr::write(slot, $val) };
                            let before = (0..n).filter(|&i| unsafe { core::ptr::read_volatile(base.add(i)) } != 0).count();
                            unsafe { core::ptr::drop_in_place(slot) };
                            let nz: Vec<usize> = (0..n).filter(|&i| unsafe { core::ptr::read_volatile(base.add(i)) } != 0).collect();
                            format!("ok size={} nonzero_before={} nonzero_after={} first={}", n, before, nz.len(), nz.first().map_or(-1i64, |&x| x as i64))
                        }}}
                        if a[0] == "drop_sk_at" {
                            match sk_of_spec(a[2]) { Ok(sk) => probe!(api::PrivateKey, sk), Err(_) => "key err".to_string() }
                        } else {
                            match pk_of_spec(a[2]) { Ok(pk) => probe!(api::PublicKey, pk), Err(_) => "key err".to_string() }
                        }
                    }
                    // a context of <len> bytes built here (too long for the line protocol): pure sign, hash sign, verify and hash_verify
                    // must refuse it at once.  bigctx <set> <len>
                    "bigctx" => {
                        let len: usize = a[2].parse().unwrap();
                        let ctx = vec![0u8; len];
                        let (pk, sk) = gen("11".repeat(32).as_str());
                        let mut r1 = ScriptRng::new(&format!("f{}", "22".repeat(32)));
                        let s1 = sk.try_sign_with_rng(&mut r1, b"m", &ctx).is_ok();
                        let mut r2 = ScriptRng::new(&format!("f{}", "22".repeat(32)));
                        let s2 = sk.try_hash_sign_with_rng(&mut r2, b"m", &ctx, &ph("sha256")).is_ok();
                        let v1 = pk.verify(b"m", &[0u8; SIG_LEN], &ctx);
                        let v2 = pk.hash_verify(b"m", &[0u8; SIG_LEN], &ctx, &ph("sha512"));
                        format!("ok sign={} hash_sign={} verify={} hash_verify={} rng={}", s01(s1), s01(s2), s01(v1), s01(v2), r1.script.len() + r2.script.len())
                    }
                    "drop_pk" => match pk_of_spec(a[2]) {
                        Ok(pk) => {
                            let n = core::mem::size_of::<api::PublicKey>();
                            let mut md = core::mem::ManuallyDrop::new(pk);
                            let p = (&*md) as *const api::PublicKey as *const u8;
                            let before = (0..n).filter(|&i| unsafe { core::ptr::read_volatile(p.add(i)) } != 0).count();
                            unsafe { core::mem::ManuallyDrop::drop(&mut md) };
                            let nz: Vec<usize> = (0..n).filter(|&i| unsafe { core::ptr::read_volatile(p.add(i)) } != 0).collect();
                            format!("ok size={} nonzero_before={} nonzero_after={} first={}", n, before, nz.len(), nz.first().map_or(-1i64, |&x| x as i64))
                        }
                        Err(_) => "key err".to_string(),
                    },
                    op => format!("unknown-op {}", op),
                }
            }
        }
    };
}

set_mod!(s44, ml_dsa_44, 4, 4, 2, 1 << 17, (8380417 - 1) / 88, 80, 39, 32, 768);
set_mod!(s65, ml_dsa_65, 6, 5, 4, 1 << 19, (8380417 - 1) / 32, 55, 49, 48, 768);
set_mod!(s87, ml_dsa_87, 8, 7, 2, 1 << 19, (8380417 - 1) / 32, 75, 60, 64, 1024);

fn dispatch(a: &[&str]) -> String {
    if let Some(r) = common(a) {
        return r;
    }
    if a.len() < 2 {
        return format!("unknown-op {}", a[0]);
    }
    match a[1] {
        "44" => s44::dispatch(a),
        "65" => s65::dispatch(a),
        "87" => s87::dispatch(a),
        _ => format!("unknown-op {}", a[0]),
    }
}

fn main() {
    std::panic::set_hook(Box::new(|_| {}));
    let stdin = std::io::stdin();
    let stdout = std::io::stdout();
    let mut out = stdout.lock();
    let verbose = std::env::var("F204H_PANIC_MSG").is_ok();
    for line in stdin.lock().lines() {
        let line = line.expect("stdin");
        let line = line.trim();
        if line.is_empty() {
            continue;
        }
        let a: Vec<&str> = line.split(' ').filter(|s| !s.is_empty()).collect();
        let r = catch_unwind(AssertUnwindSafe(|| dispatch(&a)));
        match r {
            Ok(s) => writeln!(out, "{}", s).unwrap(),
            Err(e) => {
                let msg = if let Some(s) = e.downcast_ref::<&str>() {
                    s.to_string()
                } else if let Some(s) = e.downcast_ref::<String>() {
                    s.clone()
                } else {
                    "?".to_string()
                };
                if msg.starts_with("harness") || msg.starts_with("i32 arg") || msg.starts_with("i64 arg") {
                    writeln!(out, "harness-error {}", msg).unwrap();
                } else if verbose {
                    writeln!(out, "panic {}", msg.replace('\n', " ")).unwrap();
                } else {
                    writeln!(out, "panic").unwrap();
                }
            }
        }
        out.flush().unwrap();
    }
}
