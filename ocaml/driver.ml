(* Line-protocol driver around the extracted Coq model (model.ml).  Trusted glue only: parsing,
   printing, dispatch.  Same protocol as the Rust harness (harness/src/main.rs):
     request : op arg arg ...        (one line)
     reply   : ok f1 f2 ... | err | panic | fuel
   ints are decimal; byte strings lowercase hex ("-" when empty); a polynomial is comma-separated
   ints; a vector is polynomials joined by ';'; a matrix is vectors joined by '|'. *)
module M = Model

(* ---------- Z <-> OCaml ---------- *)
let rec pos_of_int (n : int) : M.positive =
  if n = 1 then M.XH
  else if n land 1 = 0 then M.XO (pos_of_int (n lsr 1))
  else M.XI (pos_of_int (n lsr 1))
let z_of_int (n : int) : M.z =
  if n = 0 then M.Z0 else if n > 0 then M.Zpos (pos_of_int n) else M.Zneg (pos_of_int (- n))
let rec int_of_pos (p : M.positive) : int =
  match p with M.XH -> 1 | M.XO q -> 2 * int_of_pos q | M.XI q -> 2 * int_of_pos q + 1
let rec pos_bits (p : M.positive) : int = match p with M.XH -> 1 | M.XO q | M.XI q -> 1 + pos_bits q
let int_of_z (z : M.z) : int =
  match z with M.Z0 -> 0 | M.Zpos p -> int_of_pos p | M.Zneg p -> - (int_of_pos p)
let rec nat_of_int (n : int) : M.nat = if n <= 0 then M.O else M.S (nat_of_int (n - 1))
let rec int_of_nat (n : M.nat) : int = match n with M.O -> 0 | M.S m -> 1 + int_of_nat m

let (((((((((zadd, zmul), zopp), _zdiv), _zmod), _zltb), _zeqb), _zofnat), _ztonat)) = M.z_ops

(* decimal parsing without going through OCaml ints when the literal is long *)
let z_of_string (s : string) : M.z =
  let neg = String.length s > 0 && s.[0] = '-' in
  let body = if neg then String.sub s 1 (String.length s - 1) else s in
  if String.length body <= 17 then z_of_int (int_of_string s)
  else begin
    let ten = z_of_int 10 in
    let acc = ref M.Z0 in
    String.iter (fun c -> acc := zadd (zmul !acc ten) (z_of_int (Char.code c - 48))) body;
    if neg then zopp !acc else !acc
  end
let string_of_z (z : M.z) : string =
  let small = match z with M.Z0 -> true | M.Zpos p | M.Zneg p -> pos_bits p <= 61 in
  if small then string_of_int (int_of_z z)
  else begin
    (* big: positive -> decimal through repeated doubling in a char buffer *)
    let digits = ref [0] in
    let dbl_add bit =
      let carry = ref bit in
      digits := List.map (fun d -> let v = 2 * d + !carry in carry := v / 10; v mod 10) !digits;
      if !carry > 0 then digits := !digits @ [!carry] in
    let rec bits p acc = match p with M.XH -> 1 :: acc | M.XO q -> bits q (0 :: acc) | M.XI q -> bits q (1 :: acc) in
    let (neg, p) = match z with M.Zneg p -> (true, p) | M.Zpos p -> (false, p) | M.Z0 -> (false, M.XH) in
    List.iter dbl_add (bits p []);
    (if neg then "-" else "") ^ String.concat "" (List.rev_map string_of_int !digits)
  end

(* ---------- field parsing / printing ---------- *)
let hexval c = match c with
  | '0'..'9' -> Char.code c - 48 | 'a'..'f' -> Char.code c - 87 | 'A'..'F' -> Char.code c - 55
  | _ -> failwith "bad hex"
let bytes_of_hex (s : string) : M.z list =
  if s = "-" then [] else begin
    let n = String.length s / 2 in
    List.init n (fun i -> z_of_int (16 * hexval s.[2 * i] + hexval s.[2 * i + 1]))
  end
let hex_of_bytes (l : M.z list) : string =
  if l = [] then "-" else begin
    let b = Buffer.create (2 * List.length l) in
    List.iter (fun z -> Buffer.add_string b (Printf.sprintf "%02x" ((int_of_z z) land 255))) l;
    Buffer.contents b
  end
let split c s = if s = "" then [] else String.split_on_char c s
let poly_of_string s : M.z list = List.map z_of_string (split ',' s)
let vec_of_string s : M.z list list = List.map poly_of_string (split ';' s)
let mat_of_string s : M.z list list list = List.map vec_of_string (split '|' s)
let string_of_poly (p : M.z list) = String.concat "," (List.map string_of_z p)
let string_of_vec v = String.concat ";" (List.map string_of_poly v)
let string_of_mat m = String.concat "|" (List.map string_of_vec m)
let zi s = z_of_string s
let bool_of_string01 s = (s = "1")
let s01 b = if b then "1" else "0"

let params s = match s with
  | "44" -> M.p44 | "65" -> M.p65 | "87" -> M.p87 | _ -> failwith "bad set"
let ph_of s = match s with
  | "sha256" -> M.SHA256 | "sha512" -> M.SHA512 | "shake128" -> M.SHAKE128 | _ -> failwith "bad ph"

(* rng script: comma separated; f<hex> = fill, x<hex> = fail after partial write *)
let rng_of_string (s : string) : M.rng =
  if s = "-" then [] else
  List.map (fun t ->
    if t.[0] = 'e' then begin
      (* e<code>:<hex> : a failure with an error code; the model's oracle has one kind of failure *)
      let i = String.index t ':' in
      let body = String.sub t (i + 1) (String.length t - i - 1) in
      M.Fail (if body = "" then [] else bytes_of_hex body)
    end else
    let body = String.sub t 1 (String.length t - 1) in
    let b = if body = "" then [] else bytes_of_hex body in
    if t.[0] = 'f' then M.Fill b else M.Fail b) (split ',' s)

let hh = M.real_hashes
let fuel = nat_of_int 400

(* ---------- replies ---------- *)
let reply (r : 'a M.res) (f : 'a -> string) : string =
  match r with
  | M.Ok a -> "ok " ^ f a
  | M.Err _ -> "err"
  | M.Panic site ->
      let b i x = if x then 1 lsl i else 0 in
      let rec go (s : M.string) acc = match s with
        | M.EmptyString -> acc
        | M.String (M.Ascii (b0, b1, b2, b3, b4, b5, b6, b7), r) ->
            let c = Char.chr (b 0 b0 + b 1 b1 + b 2 b2 + b 3 b3 + b 4 b4 + b 5 b5 + b 6 b6 + b 7 b7) in
            go r (acc ^ String.make 1 (if c = ' ' then '_' else c)) in
      "panic " ^ go site ""
  | M.OutOfFuel -> "fuel"

let pk_dump (pk : M.publicKey) =
  Printf.sprintf "%s %s %s" (hex_of_bytes pk.M.pk_rho) (hex_of_bytes pk.M.pk_tr)
    (string_of_vec pk.M.pk_t1_d2_hat_mont)
let sk_dump (sk : M.privateKey) =
  Printf.sprintf "%s %s %s %s %s %s" (hex_of_bytes sk.M.sk_rho) (hex_of_bytes sk.M.sk_cap_k)
    (hex_of_bytes sk.M.sk_tr) (string_of_vec sk.M.sk_s_1_hat_mont)
    (string_of_vec sk.M.sk_s_2_hat_mont) (string_of_vec sk.M.sk_t_0_hat_mont)

let bind r f = match r with M.Ok a -> f a | M.Err e -> M.Err e | M.Panic s -> M.Panic s | M.OutOfFuel -> M.OutOfFuel

(* key specifications shared by sign / verify / serdes ops:
   sk:  b:<hex> deserialised | s:<xi> generated | r:<xi> generated, serialised, deserialised
   pk:  b:<hex> deserialised | s:<xi> generated | r:<xi> generated and round-tripped
        d:<xi> derived from the generated sk | e:<xi> derived from the round-tripped sk
        db:<skhex> derived from a deserialised sk *)
let spec_split s = match String.index_opt s ':' with
  | Some i -> (String.sub s 0 i, String.sub s (i + 1) (String.length s - i - 1))
  | None -> failwith "bad key spec"
let gen p xi = M.keygen_from_seed hh p (bytes_of_hex xi)
let sk_of_spec p s : M.privateKey M.res =
  match spec_split s with
  | ("b", h) -> M.sk_try_from_bytes p (bytes_of_hex h)
  | ("s", xi) -> bind (gen p xi) (fun (_, sk) -> M.Ok sk)
  | ("r", xi) -> bind (gen p xi) (fun (_, sk) -> bind (M.sk_into_bytes p sk) (fun b -> M.sk_try_from_bytes p b))
  | _ -> failwith "bad sk spec"
let pk_of_spec p s : M.publicKey M.res =
  match spec_split s with
  | ("b", h) -> M.pk_try_from_bytes hh p (bytes_of_hex h)
  | ("s", xi) -> bind (gen p xi) (fun (pk, _) -> M.Ok pk)
  | ("r", xi) -> bind (gen p xi) (fun (pk, _) -> bind (M.pk_into_bytes p pk) (fun b -> M.pk_try_from_bytes hh p b))
  | ("d", xi) -> bind (gen p xi) (fun (_, sk) -> M.get_public_key hh p sk)
  | ("e", xi) -> bind (sk_of_spec p ("r:" ^ xi)) (fun sk -> M.get_public_key hh p sk)
  | ("f", xi) -> bind (gen p xi) (fun (_, sk) -> bind (M.get_public_key hh p sk) (fun pk -> bind (M.pk_into_bytes p pk) (fun b -> M.pk_try_from_bytes hh p b)))
  | ("db", h) -> bind (M.sk_try_from_bytes p (bytes_of_hex h)) (fun sk -> M.get_public_key hh p sk)
  | _ -> failwith "bad pk spec"

let dispatch (a : string array) : string =
  let n i = a.(i) in
  match a.(0) with
  (* scalar kernels *)
  | "pr64" -> reply (M.partial_reduce64 (zi (n 1))) string_of_z
  | "pr32" -> reply (M.partial_reduce32 (zi (n 1))) string_of_z
  | "fr32" -> reply (M.full_reduce32 (zi (n 1))) string_of_z
  | "cmod" -> reply (M.center_mod (zi (n 1))) string_of_z
  | "mont" -> reply (M.mont_reduce (zi (n 1))) string_of_z
  | "bitlen" -> reply (M.bit_length (zi (n 1))) string_of_z
  | "decompose" -> reply (M.decompose (zi (n 1)) (zi (n 2))) (fun (r1, r0) -> string_of_z r1 ^ " " ^ string_of_z r0)
  | "highbits" -> reply (M.high_bits (zi (n 1)) (zi (n 2))) string_of_z
  | "lowbits" -> reply (M.low_bits (zi (n 1)) (zi (n 2))) string_of_z
  | "makehint" -> reply (M.make_hint (zi (n 1)) (zi (n 2)) (zi (n 3))) s01
  | "usehint" -> reply (M.use_hint (zi (n 1)) (zi (n 2)) (zi (n 3))) string_of_z
  | "c3b" -> reply (M.coeff_from_three_bytes (bool_of_string01 (n 1)) (zi (n 2)) (zi (n 3)) (zi (n 4))) string_of_z
  | "chb" -> reply (M.coeff_from_half_byte (bool_of_string01 (n 1)) (zi (n 2)) (zi (n 3))) string_of_z
  | "zetas" -> "ok " ^ string_of_poly M.zETA_TABLE_MONT
  (* vector kernels *)
  | "p2r" -> reply (M.power2round (vec_of_string (n 2))) (fun (r1, r0) -> string_of_vec r1 ^ " " ^ string_of_vec r0)
  | "infnorm_k" | "infnorm_l" -> reply (M.infinity_norm (vec_of_string (n 2))) string_of_z
  | "inrange" -> "ok " ^ s01 (M.is_in_range (poly_of_string (n 1)) (zi (n 2)) (zi (n 3)))
  | "tomont_l" -> reply (M.to_mont (vec_of_string (n 2))) string_of_vec
  | "ntt_l" -> reply (M.ntt (vec_of_string (n 2))) string_of_vec
  | "invntt_k" -> reply (M.inv_ntt (vec_of_string (n 2))) string_of_vec
  | "matvec" -> reply (M.mat_vec_mul (mat_of_string (n 2)) (vec_of_string (n 3))) string_of_vec
  | "addvec_k" -> reply (M.add_vector_ntt (vec_of_string (n 2)) (vec_of_string (n 3))) string_of_vec
  (* codecs *)
  | "bitpack" ->
      let av = zi (n 1) and bv = zi (n 2) in
      let outlen = z_of_int (int_of_string (n 4)) in
      reply (M.bit_pack (poly_of_string (n 3)) av bv outlen) hex_of_bytes
  | "sbitpack" ->
      let outlen = z_of_int (int_of_string (n 3)) in
      reply (M.simple_bit_pack (poly_of_string (n 2)) (zi (n 1)) outlen) hex_of_bytes
  | "bitunpack" -> reply (M.bit_unpack (bytes_of_hex (n 3)) (zi (n 1)) (zi (n 2))) string_of_poly
  | "sbitunpack" -> reply (M.simple_bit_unpack (bytes_of_hex (n 2)) (zi (n 1))) string_of_poly
  | "hintpack" ->
      let p = params (n 1) in
      let ylen = zadd p.M.p_omega (z_of_int (int_of_nat p.M.p_k)) in
      reply (M.hint_bit_pack (bool_of_string01 (n 2)) p.M.p_omega (vec_of_string (n 3)) ylen) hex_of_bytes
  | "hintunpack" ->
      let p = params (n 1) in
      reply (M.hint_bit_unpack p.M.p_k p.M.p_omega (bytes_of_hex (n 2))) string_of_vec
  | "pkenc" -> reply (M.pk_encode (params (n 1)) (bytes_of_hex (n 2)) (vec_of_string (n 3))) hex_of_bytes
  | "pkdec" -> reply (M.pk_decode (params (n 1)) (bytes_of_hex (n 2)))
                 (fun (rho, t1) -> hex_of_bytes rho ^ " " ^ string_of_vec t1)
  | "skenc" -> reply (M.sk_encode (params (n 1)) (bytes_of_hex (n 2)) (bytes_of_hex (n 3)) (bytes_of_hex (n 4))
                        (vec_of_string (n 5)) (vec_of_string (n 6)) (vec_of_string (n 7))) hex_of_bytes
  | "skdec" -> reply (M.sk_decode (params (n 1)) (bytes_of_hex (n 2)))
                 (fun (((((rho, k), tr), s1), s2), t0) ->
                    String.concat " " [hex_of_bytes rho; hex_of_bytes k; hex_of_bytes tr;
                                       string_of_vec s1; string_of_vec s2; string_of_vec t0])
  | "sigenc" -> reply (M.sig_encode (bool_of_string01 (n 2)) (params (n 1)) (bytes_of_hex (n 3))
                         (vec_of_string (n 4)) (vec_of_string (n 5))) hex_of_bytes
  | "sigdec" -> reply (M.sig_decode (params (n 1)) (bytes_of_hex (n 2)))
                  (fun ((c, z), h) -> String.concat " " [hex_of_bytes c; string_of_vec z; string_of_vec h])
  | "w1enc" -> let p = params (n 1) in reply (M.w1_encode p (vec_of_string (n 2)) p.M.p_w1_len) hex_of_bytes
  (* hashing / sampling *)
  | "shake256" -> "ok " ^ hex_of_bytes (hh.M.h_shake256 (bytes_of_hex (n 1)) (nat_of_int (int_of_string (n 2))))
  | "shake128" -> "ok " ^ hex_of_bytes (hh.M.h_shake128 (bytes_of_hex (n 1)) (nat_of_int (int_of_string (n 2))))
  | "sha256" -> "ok " ^ hex_of_bytes (hh.M.h_sha256 (bytes_of_hex (n 1)))
  | "sha512" -> "ok " ^ hex_of_bytes (hh.M.h_sha512 (bytes_of_hex (n 1)))
  | "sib" -> reply (M.sample_in_ball hh (bool_of_string01 (n 1)) (zi (n 2)) (bytes_of_hex (n 3))) string_of_poly
  | "rejntt" -> reply (M.rej_ntt_poly hh (bool_of_string01 (n 1)) (bytes_of_hex (n 2))) string_of_poly
  | "rejbounded" -> reply (M.rej_bounded_poly hh (bool_of_string01 (n 1)) (zi (n 2)) (bytes_of_hex (n 3))) string_of_poly
  | "expa" -> reply (M.expand_a hh (bool_of_string01 (n 2)) (params (n 1)) (bytes_of_hex (n 3))) string_of_mat
  | "exps" -> reply (M.expand_s hh (bool_of_string01 (n 2)) (params (n 1)) (bytes_of_hex (n 3)))
                (fun (s1, s2) -> string_of_vec s1 ^ " " ^ string_of_vec s2)
  | "expmask" -> reply (M.expand_mask hh (params (n 1)) (bytes_of_hex (n 2)) (zi (n 3))) string_of_vec
  | "hashmsg" -> let (oid, phm) = M.hash_message hh (bytes_of_hex (n 2)) (ph_of (n 1)) in
                 "ok " ^ hex_of_bytes oid ^ " " ^ hex_of_bytes phm
  (* API *)
  | "keygen_seed" ->
      let p = params (n 1) in
      reply (bind (gen p (n 2)) (fun (pk, sk) ->
               bind (M.pk_into_bytes p pk) (fun pkb ->
               bind (M.sk_into_bytes p sk) (fun skb -> M.Ok (pk, sk, pkb, skb)))))
        (fun (pk, sk, pkb, skb) -> String.concat " " [hex_of_bytes pkb; hex_of_bytes skb; pk_dump pk; sk_dump sk])
  | "keygen_rng" ->
      let p = params (n 1) in
      let (r, g') = M.try_keygen_with_rng hh p (rng_of_string (n 2)) in
      reply (bind r (fun (pk, sk) ->
               bind (M.pk_into_bytes p pk) (fun pkb ->
               bind (M.sk_into_bytes p sk) (fun skb -> M.Ok (pkb, skb)))))
        (fun (pkb, skb) -> String.concat " " [hex_of_bytes pkb; hex_of_bytes skb]) ^ " rng=" ^ string_of_int (List.length g')
  | "sign" ->
      (* sign set skspec script msg ctx mode *)
      let p = params (n 1) in
      let msg = bytes_of_hex (n 4) and ctx = bytes_of_hex (n 5) in
      (match sk_of_spec p (n 2) with
       | M.Ok sk ->
           let g = rng_of_string (n 3) in
           let (r, g') = (match n 6 with
             | "pure" -> M.try_sign_with_rng hh fuel p sk g msg ctx
             | "internal" ->
                 (match g with
                  | [M.Fill rnd] -> (M.internal_sign hh fuel p sk msg ctx rnd, [])
                  | _ -> failwith "internal sign needs exactly one fill")
             | ph -> M.try_hash_sign_with_rng hh fuel p sk g msg ctx (ph_of ph)) in
           reply r hex_of_bytes ^ " rng=" ^ string_of_int (List.length g')
       | r -> "key " ^ reply r (fun _ -> ""))
  | "verify" ->
      (* verify set pkspec msg sig ctx mode *)
      let p = params (n 1) in
      let msg = bytes_of_hex (n 3) and sg = bytes_of_hex (n 4) and ctx = bytes_of_hex (n 5) in
      (match pk_of_spec p (n 2) with
       | M.Ok pk ->
           reply (match n 6 with
             | "pure" -> M.verify hh p pk msg sg ctx
             | "internal" -> M.internal_verify hh p pk msg sg ctx
             | ph -> M.hash_verify hh p pk msg sg ctx (ph_of ph)) s01
       | r -> "key " ^ reply r (fun _ -> ""))
  | "sk_load" -> let p = params (n 1) in reply (sk_of_spec p (n 2)) sk_dump
  | "pk_load" -> let p = params (n 1) in reply (pk_of_spec p (n 2)) pk_dump
  | "sk_bytes" -> let p = params (n 1) in
      (match sk_of_spec p (n 2) with
       | M.Ok sk -> reply (M.sk_into_bytes p sk) hex_of_bytes
       | r -> "key " ^ reply r (fun _ -> ""))
  | "pk_bytes" -> let p = params (n 1) in
      (match pk_of_spec p (n 2) with
       | M.Ok pk -> reply (M.pk_into_bytes p pk) hex_of_bytes
       | r -> "key " ^ reply r (fun _ -> ""))
  | "dudect" ->
      let p = params (n 1) in
      let (r, g') = M.dudect_keygen_sign_with_rng hh fuel p (rng_of_string (n 2)) (bytes_of_hex (n 3)) in
      reply r hex_of_bytes ^ " rng=" ^ string_of_int (List.length g')

  (* ---------- spec oracle (FIPS 204 transcription) ---------- *)
  | "spec_modpm" -> "ok " ^ string_of_z (M.spec_mod_pm (zi (n 1)) (zi (n 2)))
  | "spec_c3b" -> (match M.spec_CoeffFromThreeBytes (zi (n 1)) (zi (n 2)) (zi (n 3)) with Some z -> "ok " ^ string_of_z z | None -> "err")
  | "spec_chb" -> (match M.spec_CoeffFromHalfByte (zi (n 1)) (zi (n 2)) with Some z -> "ok " ^ string_of_z z | None -> "err")
  | "spec_p2r" -> let (a, b) = M.spec_Power2Round (zi (n 1)) in "ok " ^ string_of_z a ^ " " ^ string_of_z b
  | "spec_decompose" -> let (a, b) = M.spec_Decompose (zi (n 1)) (zi (n 2)) in "ok " ^ string_of_z a ^ " " ^ string_of_z b
  | "spec_makehint" -> "ok " ^ s01 (M.spec_MakeHint (zi (n 1)) (zi (n 2)) (zi (n 3)))
  | "spec_usehint" -> "ok " ^ string_of_z (M.spec_UseHint (zi (n 1)) (zi (n 2)) (zi (n 3)))
  | "spec_ntt" -> "ok " ^ string_of_poly (M.spec_NTT (poly_of_string (n 1)))
  | "spec_invntt" -> "ok " ^ string_of_poly (M.spec_invNTT (poly_of_string (n 1)))
  | "spec_negacyclic" -> "ok " ^ string_of_poly (M.spec_negacyclic (poly_of_string (n 1)) (poly_of_string (n 2)))
  | "spec_bitpack" -> "ok " ^ hex_of_bytes (M.spec_BitPack (poly_of_string (n 3)) (zi (n 1)) (zi (n 2)))
  | "spec_sbitpack" -> "ok " ^ hex_of_bytes (M.spec_SimpleBitPack (poly_of_string (n 2)) (zi (n 1)))
  | "spec_bitunpack" -> "ok " ^ string_of_poly (M.spec_BitUnpack (bytes_of_hex (n 3)) (zi (n 1)) (zi (n 2)))
  | "spec_sbitunpack" -> "ok " ^ string_of_poly (M.spec_SimpleBitUnpack (bytes_of_hex (n 2)) (zi (n 1)))
  | "spec_hintpack" -> let p = params (n 1) in "ok " ^ hex_of_bytes (M.spec_HintBitPack p.M.p_omega (vec_of_string (n 2)))
  | "spec_hintunpack" -> let p = params (n 1) in
      (match M.spec_HintBitUnpack p.M.p_omega p.M.p_k (bytes_of_hex (n 2)) with Some h -> "ok " ^ string_of_vec h | None -> "err")
  | "spec_sigdec" -> let p = params (n 1) in
      let ((c, z), h) = M.spec_sigDecode p (bytes_of_hex (n 2)) in
      (match h with Some h -> String.concat " " ["ok"; hex_of_bytes c; string_of_vec z; string_of_vec h] | None -> "err")
  | "spec_sigenc" -> let p = params (n 1) in
      "ok " ^ hex_of_bytes (M.spec_sigEncode p (bytes_of_hex (n 2)) (vec_of_string (n 3)) (vec_of_string (n 4)))
  | "spec_skdec" -> let p = params (n 1) in
      let (((((rho, k), tr), s1), s2), t0) = M.spec_skDecode p (bytes_of_hex (n 2)) in
      String.concat " " ["ok"; hex_of_bytes rho; hex_of_bytes k; hex_of_bytes tr; string_of_vec s1; string_of_vec s2; string_of_vec t0]
  | "spec_pkdec" -> let p = params (n 1) in
      let (rho, t1) = M.spec_pkDecode p.M.p_k (bytes_of_hex (n 2)) in "ok " ^ hex_of_bytes rho ^ " " ^ string_of_vec t1
  | "spec_pkenc" -> "ok " ^ hex_of_bytes (M.spec_pkEncode (bytes_of_hex (n 2)) (vec_of_string (n 3)))
  | "spec_w1enc" -> "ok " ^ hex_of_bytes (M.spec_w1Encode (params (n 1)) (vec_of_string (n 2)))
  | "spec_sib" -> (match M.spec_SampleInBall hh (zi (n 1)) (bytes_of_hex (n 2)) with Some c -> "ok " ^ string_of_poly c | None -> "fuel")
  | "spec_rejntt" -> (match M.spec_RejNTTPoly hh (bytes_of_hex (n 1)) with Some c -> "ok " ^ string_of_poly c | None -> "fuel")
  | "spec_rejbounded" -> (match M.spec_RejBoundedPoly hh (zi (n 1)) (bytes_of_hex (n 2)) with Some c -> "ok " ^ string_of_poly c | None -> "fuel")
  | "spec_expmask" -> "ok " ^ string_of_vec (M.spec_ExpandMask hh (params (n 1)) (bytes_of_hex (n 2)) (zi (n 3)))
  | "spec_keygen" ->
      (match M.spec_KeyGen_internal hh (params (n 1)) (bytes_of_hex (n 2)) with
       | Some (pk, sk) -> "ok " ^ hex_of_bytes pk ^ " " ^ hex_of_bytes sk | None -> "fuel")
  | "spec_sign" ->
      (* spec_sign set skhex rndhex msg ctx mode *)
      let p = params (n 1) in
      let sk = bytes_of_hex (n 2) and rnd = bytes_of_hex (n 3) and msg = bytes_of_hex (n 4) and ctx = bytes_of_hex (n 5) in
      let r = (match n 6 with
        | "pure" -> M.spec_Sign hh fuel p sk msg ctx rnd
        | "internal" -> (match M.spec_Sign_internal hh fuel p sk msg rnd with Some s -> M.SR_sig s | None -> M.SR_out_of_fuel)
        | "sha256" -> M.spec_HashSign hh fuel p sk msg ctx M.PH_SHA256 rnd
        | "sha512" -> M.spec_HashSign hh fuel p sk msg ctx M.PH_SHA512 rnd
        | "shake128" -> M.spec_HashSign hh fuel p sk msg ctx M.PH_SHAKE128 rnd
        | _ -> failwith "bad mode") in
      (match r with M.SR_sig s -> "ok " ^ hex_of_bytes s | M.SR_ctx_too_long -> "err" | M.SR_out_of_fuel -> "fuel")
  | "spec_verify" ->
      (* spec_verify set pkhex msg sig ctx mode *)
      let p = params (n 1) in
      let pk = bytes_of_hex (n 2) and msg = bytes_of_hex (n 3) and sg = bytes_of_hex (n 4) and ctx = bytes_of_hex (n 5) in
      let r = (match n 6 with
        | "pure" -> M.spec_Verify hh p pk msg sg ctx
        | "internal" -> M.spec_Verify_internal hh p pk msg sg
        | "sha256" -> M.spec_HashVerify hh p pk msg sg ctx M.PH_SHA256
        | "sha512" -> M.spec_HashVerify hh p pk msg sg ctx M.PH_SHA512
        | "shake128" -> M.spec_HashVerify hh p pk msg sg ctx M.PH_SHAKE128
        | _ -> failwith "bad mode") in
      (match r with Some b -> "ok " ^ s01 b | None -> "fuel")
  | "spec_ctilde" ->
      (* spec_ctilde set pkhex msg ctx mode ctilde_in z h : commitment hash Verify recomputes *)
      let p = params (n 1) in
      let pk = bytes_of_hex (n 2) and msg = bytes_of_hex (n 3) and ctx = bytes_of_hex (n 4) in
      let m' = (match n 5 with
        | "pure" -> M.spec_M_pure msg ctx
        | "internal" -> msg
        | "sha256" -> M.spec_M_hash hh M.PH_SHA256 msg ctx
        | "sha512" -> M.spec_M_hash hh M.PH_SHA512 msg ctx
        | "shake128" -> M.spec_M_hash hh M.PH_SHAKE128 msg ctx
        | _ -> failwith "bad mode") in
      (match M.spec_ctilde hh p pk m' (bytes_of_hex (n 6)) (vec_of_string (n 7)) (vec_of_string (n 8)) with
       | Some c -> "ok " ^ hex_of_bytes c | None -> "fuel")
  | op -> "unknown-op " ^ op

let () =
  try
    while true do
      let line = input_line stdin in
      let line = String.trim line in
      if line <> "" then begin
        let a = Array.of_list (List.filter (fun s -> s <> "") (String.split_on_char ' ' line)) in
        let out = (try dispatch a with
                   | Failure m -> "driver-error " ^ m
                   | Invalid_argument m -> "driver-error " ^ m
                   | Not_found -> "driver-error not_found"
                   | Stack_overflow -> "driver-error stack_overflow") in
        print_string out; print_newline ()
      end
    done
  with End_of_file -> ()
