From Coq Require Import ZArith Lia List Bool. Import ListNotations. Open Scope Z_scope.
Ltac Zify.zify_post_hook ::= Z.div_mod_to_equations.
Inductive res (A : Type) := Ok (a : A) | Panic.
Arguments Ok {A}. Arguments Panic {A}.
Definition bind {A B} (m : res A) (f : A -> res B) : res B := match m with Ok a => f a | Panic => Panic end.
Notation "x <- m ;; f" := (bind m (fun x => f)) (at level 61, m at next level, right associativity).
Definition in32 (x : Z) : bool := (-2147483648 <=? x) && (x <=? 2147483647).
Definition chk32 (x : Z) : res Z := if in32 x then Ok x else Panic.
Definition add32 a b := chk32 (a + b). Definition sub32 a b := chk32 (a - b). Definition mul32 a b := chk32 (a * b).
Definition shr32 a n := Ok (a / 2 ^ n).          (* arithmetic shift right on i32 *)
Definition and32 a b := Ok (Z.land a b). Definition xor32 a b := Ok (Z.lxor a b).
Definition guard (c : bool) : res unit := if c then Ok tt else Panic.
Definition Q := 8380417.
Lemma chk32_ok x : -2147483648 <= x <= 2147483647 -> chk32 x = Ok x.
Proof. intros. unfold chk32, in32. replace (-2147483648 <=? x) with true by lia. replace (x <=? 2147483647) with true by lia. reflexivity. Qed.
(* what T4 would emit for partial_reduce32 / full_reduce32 *)
Definition partial_reduce32 (a : Z) : res Z :=
  _ <- guard (Z.abs a <? 2143289344) ;;
  t1 <- add32 a (2^22) ;; x <- shr32 t1 23 ;; t2 <- mul32 x Q ;; r <- sub32 a t2 ;;
  _ <- guard (Z.abs r <? Q) ;; Ok r.
Definition full_reduce32 (a : Z) : res Z :=
  _ <- guard (Z.abs a <? 2143289344) ;;
  x <- partial_reduce32 a ;; s <- shr32 x 31 ;; m <- and32 s Q ;; r <- add32 x m ;;
  _ <- guard (r <? Q) ;; Ok r.
Lemma partial_reduce32_spec a : Z.abs a < 2143289344 ->
  exists r, partial_reduce32 a = Ok r /\ r mod Q = a mod Q /\ Z.abs r <= 2^22 + 255 * 8191.
Proof.
  intros H. unfold partial_reduce32, add32, shr32, mul32, sub32, guard, bind, Q.
  replace (Z.abs a <? 2143289344) with true by lia.
  change (2^22) with 4194304. change (2^23) with 8388608.
  rewrite chk32_ok by lia.
  rewrite chk32_ok by lia.
  rewrite chk32_ok by lia.
  set (r := a - (a + 4194304) / 8388608 * 8380417).
  assert (Hr : Z.abs r <= 4194304 + 255 * 8191) by (unfold r; lia).
  replace (Z.abs r <? 8380417) with true by lia.
  exists r. split; [reflexivity|]. split; [|exact Hr].
  unfold r. rewrite <- Zminus_mod_idemp_r. rewrite Z_mod_mult. f_equal. lia.
Qed.
Lemma shr31_land x : -8380417 < x < 8380417 -> Z.land (x / 2^31) 8380417 = if x <? 0 then 8380417 else 0.
Proof. intros. destruct (x <? 0) eqn:E.
  - replace (x / 2^31) with (-1) by (change (2^31) with 2147483648; lia). reflexivity.
  - replace (x / 2^31) with 0 by (change (2^31) with 2147483648; lia). reflexivity. Qed.
Lemma full_reduce32_spec a : Z.abs a < 2143289344 -> full_reduce32 a = Ok (a mod Q).
Proof.
  intros H. destruct (partial_reduce32_spec a H) as (r & E & Hm & Hb).
  unfold full_reduce32, guard, bind. replace (Z.abs a <? 2143289344) with true by lia. rewrite E.
  unfold shr32, and32, add32. cbv beta iota. unfold Q in *. rewrite shr31_land by lia.
  change (2^22) with 4194304 in Hb.
  destruct (r <? 0) eqn:En.
  - rewrite chk32_ok by lia. replace (r + 8380417 <? 8380417) with true by lia. f_equal.
    rewrite <- Hm. symmetry. rewrite <- (Z.mod_small (r + 8380417) 8380417) at 1 by lia. rewrite <- Z.add_mod_idemp_r by lia. rewrite Z.mod_same by lia. f_equal. lia.
  - rewrite chk32_ok by lia. replace (r + 0 <? 8380417) with true by lia. f_equal. rewrite <- Hm. rewrite Z.mod_small by lia. lia.
Qed.
(* decompose, gamma2 = 95232 branch, as T4 would emit it *)
Definition decompose44 (r : Z) : res (Z * Z) :=
  rp <- full_reduce32 r ;;
  t <- add32 rp 127 ;; x <- shr32 t 7 ;;
  t <- mul32 x 11275 ;; t <- add32 t (2^23) ;; x <- shr32 t 24 ;;
  t <- sub32 43 x ;; s <- shr32 t 31 ;; m <- and32 s x ;; x <- xor32 x m ;;
  t <- mul32 x 2 ;; t <- mul32 t 95232 ;; r0 <- sub32 rp t ;;
  t <- sub32 ((Q - 1) / 2) r0 ;; s <- shr32 t 31 ;; m <- and32 s Q ;; r0 <- sub32 r0 m ;;
  Ok (x, r0).
Definition mod_pm (m a : Z) : Z := let r := m mod a in if r <=? a / 2 then r else r - a.
Definition S_decompose (g rp : Z) : Z * Z :=
  let r0 := mod_pm rp (2*g) in if rp - r0 =? Q - 1 then (0, r0 - 1) else ((rp - r0) / (2*g), r0).
Fixpoint allupto (f : Z -> bool) (n : nat) (z : Z) : bool := match n with O => true | S k => f z && allupto f k (z+1) end.
Lemma allupto_spec f n z : allupto f n z = true -> forall x, z <= x < z + Z.of_nat n -> f x = true.
Proof. revert z. induction n as [|n IH]; intros z H x Hx; [lia|]. cbn [allupto] in H. apply andb_true_iff in H as [H1 H2].
  destruct (Z.eq_dec x z) as [->|]; [exact H1|]. apply (IH (z+1)); [exact H2|lia]. Qed.
Definition okb u := (u * 11275 + 8388608) / 16777216 =? (u + 743) / 1488.
Lemma sweep44 : allupto okb (Z.to_nat 65474) 0 = true. Proof. vm_compute. reflexivity. Qed.
Lemma mulshift44 u : 0 <= u <= 65473 -> (u * 11275 + 8388608) / 16777216 = (u + 743) / 1488.
Proof. intros. apply Z.eqb_eq. apply (allupto_spec okb _ 0 sweep44). rewrite Z2Nat.id; lia. Qed.
Lemma decompose44_spec r : Z.abs r < 2143289344 -> decompose44 r = Ok (S_decompose 95232 (r mod Q)).
Proof.
  intros H. unfold decompose44. rewrite (full_reduce32_spec r H). unfold bind at 1.
  assert (Hrp : 0 <= r mod Q < Q) by (apply Z.mod_pos_bound; reflexivity). set (rp := r mod Q) in *. clearbody rp. clear r H.
  unfold add32, shr32, mul32, sub32, and32, xor32, bind, Q in *.
  change (2^7) with 128. change (2^23) with 8388608. change (2^24) with 16777216. change ((8380417 - 1)/2) with 4190208.
  rewrite chk32_ok by lia.
  set (u := (rp + 127) / 128). assert (Hu : 0 <= u <= 65473) by (unfold u; lia).
  rewrite chk32_ok by lia. rewrite chk32_ok by lia. rewrite (mulshift44 u Hu).
  set (v := (u + 743) / 1488). assert (Hv : 0 <= v <= 44) by (unfold v; lia).
  rewrite chk32_ok by lia.
  assert (Hx : Z.lxor v (Z.land ((43 - v) / 2^31) v) = if v =? 44 then 0 else v).
  { destruct (v =? 44) eqn:E. - apply Z.eqb_eq in E. rewrite E. reflexivity.
    - replace ((43 - v) / 2^31) with 0 by (change (2^31) with 2147483648; lia). rewrite Z.land_0_l. apply Z.lxor_0_r. }
  rewrite Hx. set (x := if v =? 44 then 0 else v). assert (Hxr : 0 <= x <= 43) by (unfold x; destruct (v =? 44) eqn:E; lia).
  rewrite chk32_ok by lia. rewrite chk32_ok by lia. rewrite chk32_ok by lia.
  set (r0 := rp - x * 2 * 95232).
  assert (Hr0 : -95232 <= r0 <= 8380416) by (unfold r0, x, v, u; destruct (((rp + 127) / 128 + 743) / 1488 =? 44) eqn:E; lia).
  rewrite chk32_ok by lia.
  assert (Hm : Z.land ((4190208 - r0) / 2^31) 8380417 = if 4190208 <? r0 then 8380417 else 0).
  { destruct (4190208 <? r0) eqn:E. - replace ((4190208 - r0) / 2^31) with (-1) by (change (2^31) with 2147483648; lia). reflexivity.
    - replace ((4190208 - r0) / 2^31) with 0 by (change (2^31) with 2147483648; lia). reflexivity. }
  rewrite Hm. rewrite chk32_ok by (destruct (4190208 <? r0); lia).
  f_equal. unfold S_decompose, mod_pm, Q. change (2 * 95232) with 190464. change (190464 / 2) with 95232. change (8380417 - 1) with 8380416.
  unfold r0, x, v, u. clear.
  destruct (((rp + 127) / 128 + 743) / 1488 =? 44) eqn:E44; destruct (4190208 <? _) eqn:Ebig; destruct (rp mod 190464 <=? 95232) eqn:Ehalf;
   match goal with |- context [?a =? 8380416] => destruct (a =? 8380416) eqn:Ecorner end; try (f_equal; lia); try lia.
Qed.
