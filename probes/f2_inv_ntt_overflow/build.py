import hashlib, pickle, numpy as np, sys
sys.argv=[sys.argv[0]]
from search import *
sol=pickle.load(open("./sol.pkl","rb"))
GAMMA2=(Q-1)//32; OMEGA=75; LAMBDA4=64
z=[[0]*256 for _ in range(L)]
for j,(F,(c0,c64,c128,c192)) in enumerate(sol):
    z[j][0]=c0; z[j][64]=c64; z[j][128]=c128; z[j][192]=c192
# --- exact model of the implementation path for row 0 (python ints, overflow detection) ---
def mont1(a):
    t=((a & 0xffffffff)*QINV)&0xffffffff
    if t>=1<<31: t-=1<<32
    aa=a & 0xffffffff
    if aa>=1<<31: aa-=1<<32
    t=(aa*QINV)&0xffffffff
    if t>=1<<31: t-=1<<32
    return (a-t*Q)>>32
def pr64_1(a):
    M=(1<<48)//Q
    x=a>>23; a=a-x*Q; x=a>>23; a=a-x*Q; q_=(a*M)>>48; return a-q_*Q
def ntt_impl(w):
    w=list(w); m=0; ln=128
    while ln>=1:
        st=0
        while st<256:
            m+=1; zt=ZT[m]
            for j in range(st,st+ln):
                t=mont1(zt*w[j+ln]); w[j+ln]=w[j]-t; w[j]=w[j]+t
            st+=2*ln
        ln>>=1
    return w
zh=[ntt_impl(p) for p in z]
um=[[pr64_1(v<<32) for v in p] for p in zh]
A=[[rej_ntt_poly(rho+bytes([s,r])).tolist() for s in range(L)] for r in range(K)]
row0=[sum(mont1(A[0][j][n]*um[j][n]) for j in range(L)) for n in range(256)]
print("exact row0 sum /Q =",sum(row0)/Q," > i32::MAX:",sum(row0)>2**31-1, " max|v|/Q",max(abs(v) for v in row0)/Q)
# --- spec verify pieces (mod q) to compute the spec-valid c~ for pk=(rho=0,t1=0) ---
zeta=[pow(1753,brv8(i),Q) for i in range(256)]
def ntt_s(w):
    w=[v%Q for v in w]; m=0; ln=128
    while ln>=1:
        st=0
        while st<256:
            m+=1
            for j in range(st,st+ln):
                t=zeta[m]*w[j+ln]%Q; w[j+ln]=(w[j]-t)%Q; w[j]=(w[j]+t)%Q
            st+=2*ln
        ln>>=1
    return w
def intt_s(w):
    w=list(w); m=256; ln=1
    while ln<256:
        st=0
        while st<256:
            m-=1; zt=(-zeta[m])%Q
            for j in range(st,st+ln):
                t=w[j]; w[j]=(t+w[j+ln])%Q; w[j+ln]=(t-w[j+ln])%Q; w[j+ln]=zt*w[j+ln]%Q
            st+=2*ln
        ln<<=1
    return [v*8347681%Q for v in w]
zs=[ntt_s(p) for p in z]
w=[intt_s([sum(A[r][j][n]*zs[j][n] for j in range(L))%Q for n in range(256)]) for r in range(K)]
def highbits(r):
    r0=r%(2*GAMMA2)
    if r0>GAMMA2: r0-=2*GAMMA2
    if r-r0==Q-1: return 0
    return (r-r0)//(2*GAMMA2)
w1=[[highbits(v) for v in p] for p in w]
w1enc=bytearray()
for p in w1:
    for i in range(0,256,2): w1enc.append(p[i]|(p[i+1]<<4))
pk=bytes(32+32*K*10)
tr=hashlib.shake_256(pk).digest(64)
msg=b"overflow"
mu=hashlib.shake_256(tr+bytes([0,0])+msg).digest(64)
ctilde=hashlib.shake_256(mu+bytes(w1enc)).digest(LAMBDA4)
# sigEncode: c~ || BitPack(z, g1-1, g1) 20 bits || hint (omega+k zero bytes)
sig=bytearray(ctilde)
for p in z:
    acc=0; nb=0
    for c in p:
        acc|=(G1-c)<<nb; nb+=20
        while nb>=8: sig.append(acc&0xff); acc>>=8; nb-=8
sig+=bytes(OMEGA+K)
assert len(sig)==4627, len(sig)
print("max|z|",max(abs(c) for p in z for c in p),"< gamma1-beta =",G1-BETA)
open("./case87.txt","w").write(pk.hex()+"\n"+bytes(sig).hex()+"\n"+msg.hex()+"\n")
print("written; spec verdict: ACCEPT (c~ computed from spec w1', norm ok, empty canonical hint)")
