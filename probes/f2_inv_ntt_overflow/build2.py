import hashlib, pickle, numpy as np, sys, random
sys.argv=[sys.argv[0]]
from search import *
exec(open("./build.py").read().split("# --- exact model")[1].split("zh=[ntt_impl")[0].join(["",""]) if False else "")
src=open("./build.py").read()
# reuse helper definitions from build.py (functions only)
pre=src[src.index("def mont1"):src.index("zh=[ntt_impl")]
exec(pre)
spec=src[src.index("zeta=[pow"):src.index("zs=[ntt_s")]
exec(spec)
GAMMA2=(Q-1)//32; OMEGA=75; LAMBDA4=64
def highbits(r):
    r0=r%(2*GAMMA2)
    if r0>GAMMA2: r0-=2*GAMMA2
    if r-r0==Q-1: return 0
    return (r-r0)//(2*GAMMA2)
def w32(x):
    x&=0xffffffff
    return x-(1<<32) if x>=1<<31 else x
FM=(8347681<<32)%Q
def pr32(a):
    x=(a+(1<<22))>>23; return a-x*Q
def fr32(a):
    x=pr32(a); return x+Q if x<0 else x
def inv_ntt_rel(w):   # release-build semantics: wrapping i32 adds
    w=list(w); m=256; ln=1; ovf=False
    while ln<256:
        st=0
        while st<256:
            m-=1; zt=-ZT[m]
            for j in range(st,st+ln):
                t=w[j]; a=t+w[j+ln]; b=t-w[j+ln]
                if not(-2**31<=a<2**31 and -2**31<=b<2**31): ovf=True
                w[j]=w32(a); w[j+ln]=mont1(zt*w32(b))
            st+=2*ln
        ln<<=1
    return [fr32(mont1(FM*v)) for v in w], ovf
sol=pickle.load(open("./sol.pkl","rb"))
A=[[rej_ntt_poly(rho+bytes([s,r])).tolist() for s in range(L)] for r in range(K)]
z=[[0]*256 for _ in range(L)]
for j,(F,(c0,c64,c128,c192)) in enumerate(sol[:6]):
    z[j][0]=c0; z[j][64]=c64; z[j][128]=c128; z[j][192]=c192
rnd=random.Random(1)
zh6=[ntt_impl(p) for p in z[:6]]; um6=[[pr64_1(v<<32) for v in p] for p in zh6]
part=[sum(mont1(A[0][j][n]*um6[j][n]) for j in range(6)) for n in range(256)]
zs6=[ntt_s(p) for p in z[:6]]
parts=[sum(A[0][j][n]*zs6[j][n] for j in range(6))%Q for n in range(256)]
for attempt in range(2000):
    z[6]=[rnd.randint(-ZR,ZR) for _ in range(256)]
    zh=ntt_impl(z[6]); um=[pr64_1(v<<32) for v in zh]
    row0=[part[n]+mont1(A[0][6][n]*um[n]) for n in range(256)]
    wi,ovf=inv_ntt_rel(row0)
    if not ovf: continue
    zs=ntt_s(z[6])
    ws=intt_s([(parts[n]+A[0][6][n]*zs[n])%Q for n in range(256)])
    diff=[n for n in range(256) if highbits(ws[n])!=highbits(wi[n])]
    nd=sum(1 for n in range(256) if ws[n]!=wi[n])
    if diff:
        print("attempt",attempt,"coeffs differing:",nd,"highbits differ at",diff[:5]); break
else:
    print("no mismatch found"); sys.exit(1)
zsall=[ntt_s(p) for p in z]
w=[intt_s([sum(A[r][j][n]*zsall[j][n] for j in range(L))%Q for n in range(256)]) for r in range(K)]
w1enc=bytearray()
for p in w:
    hb=[highbits(v) for v in p]
    for i in range(0,256,2): w1enc.append(hb[i]|(hb[i+1]<<4))
pk=bytes(32+32*K*10); tr=hashlib.shake_256(pk).digest(64); msg=b"overflow"
mu=hashlib.shake_256(tr+bytes([0,0])+msg).digest(64)
ctilde=hashlib.shake_256(mu+bytes(w1enc)).digest(LAMBDA4)
sig=bytearray(ctilde)
for p in z:
    acc=0; nb=0
    for c in p:
        acc|=(G1-c)<<nb; nb+=20
        while nb>=8: sig.append(acc&0xff); acc>>=8; nb-=8
sig+=bytes(OMEGA+K)
open("./case87b.txt","w").write(pk.hex()+"\n"+bytes(sig).hex()+"\n"+msg.hex()+"\n")
print("written case87b; max|z|",max(abs(c) for p in z for c in p))
