use fips204::traits::{SerDes, Verifier};
use fips204::ml_dsa_87 as m87;
fn hx(s: &str) -> Vec<u8> { (0..s.len()/2).map(|i| u8::from_str_radix(&s[2*i..2*i+2], 16).unwrap()).collect() }
fn main() {
    let txt = std::fs::read_to_string(std::env::args().nth(1).unwrap()).unwrap();
    let mut it = txt.lines();
    let pk: [u8; 2592] = hx(it.next().unwrap()).try_into().unwrap();
    let sig: [u8; 4627] = hx(it.next().unwrap()).try_into().unwrap();
    let msg = hx(it.next().unwrap());
    let pk = m87::PublicKey::try_from_bytes(pk).unwrap();
    let r = std::panic::catch_unwind(|| pk.verify(&msg, &sig, &[]));
    match r { Ok(v) => println!("verify returned {}", v), Err(_) => println!("verify PANICKED") }
}
