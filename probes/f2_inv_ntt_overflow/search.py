# Prototype: sparse-coset search for an inverse-NTT accumulation overflow in verify (ML-DSA-87)
import hashlib, numpy as np, time, sys, itertools, pickle
from multiprocessing import Pool
Q=8380417; QINV=58728449; G1=1<<19; BETA=120; L=7; K=8
ZR=G1-BETA-1            # |z| <= ZR keeps the signature spec-valid
def brv8(x): return int('{:08b}'.format(x)[::-1],2)
ZT=[0]*256
x=1
for i in range(256):
    ZT[brv8(i)]=(x<<32)%Q; x=(x*1753)%Q
def mont(a):
    a=np.asarray(a,dtype=np.int64)
    t=(a.astype(np.int32).astype(np.int64)*QINV).astype(np.int32).astype(np.int64)
    return (a-t*Q)>>32
def pr64(a):
    M=(1<<48)//Q
    x=a>>23; a=a-x*Q; x=a>>23; a=a-x*Q; q=(a*M)>>48; return a-q*Q
def rej_ntt_poly(seed):
    out=[]; s=hashlib.shake_128(seed).digest(3*600); i=0
    while len(out)<256:
        z=s[i]|(s[i+1]<<8)|((s[i+2]&0x7f)<<16); i+=3
        if z<Q: out.append(z)
    return np.array(out,dtype=np.int64)
rho=bytes(32)
Arow=[rej_ntt_poly(rho+bytes([s,0])) for s in range(L)]
AM=9_200_000
N=int(sys.argv[1]) if len(sys.argv)>1 else 40
def block_top(args):
    j,b=args
    vals=np.arange(-AM,AM+1,dtype=np.int64)
    u=pr64(vals<<32)
    f=np.zeros(len(vals),dtype=np.int64)
    for n in range(64*b,64*b+64):
        f+=mont(Arow[j][n]*u)
    idx=np.argpartition(-f,N)[:N]
    idx=idx[np.argsort(-f[idx])]
    return (j,b,vals[idx].copy(),f[idx].copy())
if __name__=="__main__":
    t0=time.time()
    with Pool(14) as p: res=p.map(block_top,[(j,b) for j in range(L) for b in range(4)])
    tops={(j,b):(a,f) for j,b,a,f in res}
    print("block tops done",time.time()-t0, "best per block /Q:", [round(float(tops[(0,b)][1][0])/Q,2) for b in range(4)]); sys.stdout.flush()
    cs=np.arange(-ZR,ZR+1,dtype=np.int64)
    T=mont(ZT[1]*cs)                       # lift of zeta^128 * c
    Tmap={int(t):int(c) for t,c in zip(T,cs)}
    X=G1+Q//2+200000
    xs=np.arange(-X,X+1,dtype=np.int64)
    Umap={}; Vmap={}
    for u,xv in zip(mont(ZT[2]*xs).tolist(),xs.tolist()): Umap.setdefault(u,[]).append(xv)
    for v,xv in zip(mont(ZT[3]*xs).tolist(),xs.tolist()): Vmap.setdefault(v,[]).append(xv)
    print("maps done",time.time()-t0); sys.stdout.flush()
    sol=[]
    for j in range(L):
        a1s,f1=tops[(j,0)]; a2s,f2=tops[(j,1)]; a3s,f3=tops[(j,2)]; a4s,f4=tops[(j,3)]
        # candidate (x0,U) from (a1,a2); (x128,V) from (a3,a4)
        P12=[((a1+a2)//2,(a1-a2)//2,int(fa+fb)) for a1,fa in zip(a1s.tolist(),f1.tolist()) for a2,fb in zip(a2s.tolist(),f2.tolist()) if (a1+a2)%2==0]
        P34=[((a3+a4)//2,(a3-a4)//2,int(fa+fb)) for a3,fa in zip(a3s.tolist(),f3.tolist()) for a4,fb in zip(a4s.tolist(),f4.tolist()) if (a3+a4)%2==0]
        best=None
        P12.sort(key=lambda t:-t[2]); P34.sort(key=lambda t:-t[2])
        for x0,U,g12 in P12:
            if U not in Umap: continue
            for x128,V,g34 in P34:
                if best and g12+g34<=best[0]: break
                if (x0+x128)%2: continue
                c0=(x0+x128)//2; T1=(x0-x128)//2
                if abs(c0)>ZR or T1 not in Tmap or V not in Vmap: continue
                ok=None
                for x64 in Umap[U]:
                    for x192 in Vmap[V]:
                        if (x64+x192)%2: continue
                        c64=(x64+x192)//2; T1p=(x64-x192)//2
                        if abs(c64)<=ZR and T1p in Tmap: ok=(c64,Tmap[T1p])
                if ok: best=(g12+g34,(c0,ok[0],Tmap[T1],ok[1]))
        print("col",j,"best F_j/Q", None if not best else round(best[0]/Q,2), best and best[1]); sys.stdout.flush()
        sol.append(best)
    tot=sum(b[0] for b in sol if b)
    print("TOTAL/Q",tot/Q,"need",2**31/Q,"time",time.time()-t0)
    pickle.dump(sol,open("./sol.pkl","wb"))
