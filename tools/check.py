#!/usr/bin/env python3
"""Per-property check driver:  tools/check.py Cxx [--tier quick|thorough]

For the property: (1) regenerate coq/Gen from /repo and re-check the Coq theorems of
Properties/Cxx.v (full .vo build, assumptions audit, forbidden-construct audit); (2) rebuild the
extracted model driver and the Rust harness (checked + release) from /repo's working tree;
(3) run the property's correspondence streams (model vs real code, both profiles) and its
property-level oracles (FIPS 204 transcription `Spec`, or the property's own expectation).
A break in (1)/(2) or a model/code disagreement triggers the property's search for a concrete
failing input; the result is reported as VIOLATION ... (with ` no-failing-input-found` when the
search finds none)."""
import sys, os, json, time, argparse, traceback
sys.path.insert(0, os.path.dirname(os.path.abspath(__file__)))
from common import *
import streams as S

TRUSTED = [
    "Coq 8.16.1 kernel (coqc; vm_compute used for finite sweeps; no native_compute)",
    "translators tools/gen_consts.py (T1-T3,T5,T6): constants, guards, domain bytes, draw sizes, OIDs, type descriptors, features, the inventory of explicit panic sites, the method lists of the trait impls and the list of drop-suppressing constructs, read from /repo on every run",
    "translator tools/gen_kernels.py + tools/rustmini.py (T4): the arithmetic kernels of helpers.rs/high_low.rs/ntt.rs/conversion.rs regenerated into coq/Gen/Kernels.v on every run and proved equal to the hand model in Proofs/KernelAgree.v (the translator's reading of Rust's integer semantics is trusted: checked + - * neg abs, wrapping <<, arithmetic >>, two's-complement & | ^, as/from conversions, left-to-right evaluation)",
    "hand-written Gallina model coq/Impl/*.v tied to the code by the correspondence streams listed under coverage.streams",
    "FIPS 204 transcription coq/Spec/*.v (validated on the ACVP vectors shipped in /repo/tests)",
    "extraction with ExtrOcamlBasic only (bool/option/unit/list/prod/sumbool/sumor directives), OCaml 4.13.1, ocaml/driver.ml glue",
    "Rust harness harness/src/main.rs and the add-only verif-hooks feature of /repo",
    "Gallina Keccak/SHA-2 reference models (validated against the sha2/sha3 crates and hashlib); theorems are stated over an abstract hash record and do not depend on them",
]


def prepare(rep, prop, need_model=True, need_harness=True):
    """Steps (1) and (2). Returns (proof summary | None, list of breaks)."""
    breaks = []
    proof = None
    with Lock():
        try:
            proof = prove(prop)
        except Break as b:
            breaks.append(b)
        if need_model:
            try:
                build_driver()
            except Break as b:
                breaks.append(b)
        if need_harness:
            try:
                build_harness()
            except Break as b:
                breaks.append(b)
    return proof, breaks


def source_changed():
    """True when /repo's src/ differs from the tree the streams were tuned on (tools/src_pin.json: commit id and content
    hash).  A changed tree is not a violation; it only makes the streams search harder (the `broken` intensity)."""
    import hashlib, glob as g
    try:
        pin = json.load(open(os.path.join(VERIF, "tools", "src_pin.json")))
        h = hashlib.sha256()
        for f in sorted(g.glob(os.path.join(REPO, "src", "*.rs"))) + [os.path.join(REPO, "Cargo.toml")]:
            h.update(os.path.basename(f).encode()); h.update(open(f, "rb").read())
        return h.hexdigest() != pin["src_sha256"]
    except Exception:
        return True


def main():
    ap = argparse.ArgumentParser()
    ap.add_argument("prop")
    ap.add_argument("--tier", default=os.environ.get("VERIF_TIER", "quick"))
    ap.add_argument("--replay", default=None)
    a = ap.parse_args()
    seed = int(os.environ.get("VERIF_SEED", "20260927"))
    prop = a.prop
    if a.replay:
        return S.replay(a.replay)
    rep = Report(prop, a.tier, seed)
    fn = getattr(S, "check_" + prop, None)
    if fn is None:
        print("no check for", prop)
        return 2
    try:
        proof, breaks = prepare(rep, prop)
        harness_ok = not any("no longer compiles with the verif-hooks" in b.what for b in breaks)
        model_ok = os.path.exists(DRIVER)
        info = {}
        if harness_ok and model_ok:
            changed = source_changed()
            info = fn(rep, a.tier, Rng(seed), broken=bool(breaks) or changed) or {}
            rep.cov["source_differs_from_pinned_tree"] = changed
        known_keys = {k[1] for k in known_findings()[0] if k[0] == prop}
        for b in breaks:
            # a break with no concrete failing input found by the streams/search above (a listed known finding is
            # not such an input: it fails on the unchanged tree as well)
            found = any(v["found_input"] and v["key"] not in known_keys for v in rep.violations)
            if not found:
                rep.violation("proof-or-correspondence-break", b.what,
                              {"no_longer_checks": b.what, "detail": b.detail[-3000:]}, found_input=False)
        try:
            level = json.load(open(os.path.join(VERIF, "tools", "manifest_table.json")))["checks"][prop]["category"]
        except Exception:
            level = info.get("level", "proof")
        return rep.finish(level, proof=proof, rule=info.get("rule", ""),
                          explanation=info.get("explanation", ""), trusted=TRUSTED,
                          checker_cmd="cd /verif/coq && make Properties/%s.vo  (coqc 8.16.1, full .vo build; Print Assumptions under every theorem)" % prop)
    except Exception as e:
        traceback.print_exc()
        rep.violation("check-crashed", "the check itself failed: %r" % (e,), {"traceback": traceback.format_exc()[-3000:]}, found_input=False)
        return rep.finish("proof", rule="", explanation="check crashed", trusted=TRUSTED)


if __name__ == "__main__":
    sys.exit(main())
