#!/usr/bin/env python3
"""Shared machinery of the per-property checks: paths, builds (Gen translators, Coq make target,
extraction + OCaml driver, Rust harness in two profiles), parallel line-protocol runners,
assumption audit, violation / known-finding reporting, evidence writer."""
import os, sys, re, json, time, subprocess, hashlib, fcntl, random, glob
from concurrent.futures import ThreadPoolExecutor

VERIF = os.path.dirname(os.path.dirname(os.path.abspath(__file__)))
REPO = os.environ.get("F204_REPO", "/repo")
COQ = os.path.join(VERIF, "coq")
OCAML = os.path.join(VERIF, "ocaml")
HARNESS = os.path.join(VERIF, "harness")
BUILD = os.path.join(VERIF, "build")
EVID = os.path.join(VERIF, "evidence")
REPLAY = os.path.join(VERIF, "replay")
LOGS = os.path.join(VERIF, "logs")
NPROC = int(os.environ.get("VERIF_JOBS", "16"))
for d in (BUILD, EVID, REPLAY, LOGS):
    os.makedirs(d, exist_ok=True)

DRIVER = os.path.join(OCAML, "driver")
H_CHECKED = os.path.join(HARNESS, "target", "debug", "f204h")
H_RELEASE = os.path.join(HARNESS, "target", "release", "f204h")

ENV = dict(os.environ, CARGO_NET_OFFLINE="true")

ALLOWED_AXIOMS = {
    # standard-library axioms a proof may depend on (each use is listed in the evidence)
    "Coq.Logic.FunctionalExtensionality.functional_extensionality_dep",
    "functional_extensionality_dep",
}


class Break(Exception):
    """A proof obligation, translator or correspondence no longer checks."""

    def __init__(self, what, detail=""):
        super().__init__(what)
        self.what = what
        self.detail = detail


def sh(cmd, cwd=None, timeout=3600, env=None):
    p = subprocess.run(cmd, cwd=cwd, shell=isinstance(cmd, str), stdout=subprocess.PIPE,
                       stderr=subprocess.STDOUT, timeout=timeout, env=env or ENV)
    return p.returncode, p.stdout.decode("utf-8", "replace")


class Lock:
    def __init__(self, name="build"):
        self.path = os.path.join(BUILD, name + ".lock")

    def __enter__(self):
        self.f = open(self.path, "w")
        fcntl.flock(self.f, fcntl.LOCK_EX)
        return self

    def __exit__(self, *a):
        fcntl.flock(self.f, fcntl.LOCK_UN)
        self.f.close()


# ------------------------------------------------------------------ builds
def regen():
    """Translators T1-T6: /repo sources -> coq/Gen/*.v (rewritten only on change)."""
    rc, out = sh([sys.executable, os.path.join(VERIF, "tools", "gen_consts.py")])
    if rc != 0:
        raise Break("translator tools/gen_consts.py aborted (source no longer has the shape it understands)", out[-2000:])
    rc, out2 = sh([sys.executable, os.path.join(VERIF, "tools", "gen_kernels.py")])
    if rc != 0:
        raise Break("translator tools/gen_kernels.py (T4) aborted (a kernel is no longer written in the subset it understands)", out2[-2000:])
    return out + out2


def coq_makefile():
    mk = os.path.join(COQ, "Makefile")
    proj = os.path.join(COQ, "_CoqProject")
    if not os.path.exists(mk) or os.path.getmtime(mk) < os.path.getmtime(proj):
        rc, out = sh("coq_makefile -f _CoqProject -o Makefile", cwd=COQ)
        if rc != 0:
            raise Break("coq_makefile failed", out[-2000:])


def coq_make(target=None, timeout=3000):
    """Full .vo build of one target (or everything).  Returns the build log."""
    coq_makefile()
    cmd = ["make", "-j%d" % NPROC] + ([target] if target else [])
    rc, out = sh(cmd, cwd=COQ, timeout=timeout)
    return rc, out


def model_hash():
    h = hashlib.sha256()
    files = []
    for sub in ("Gen", "Base", "Hash", "Spec", "Impl"):
        files += sorted(glob.glob(os.path.join(COQ, sub, "*.v")))
    files.append(os.path.join(COQ, "Extract.v"))
    files.append(os.path.join(OCAML, "driver.ml"))
    for f in files:
        h.update(f.encode())
        h.update(open(f, "rb").read())
    return h.hexdigest()


def build_driver():
    """Extract the models (ExtrOcamlBasic only) and build the OCaml driver when any model source changed."""
    stamp = os.path.join(BUILD, "driver.stamp")
    want = model_hash()
    if os.path.exists(stamp) and open(stamp).read() == want and os.path.exists(DRIVER):
        return "cached"
    rc, out = coq_make("Impl/Api.vo")
    if rc != 0:
        raise Break("the implementation model no longer compiles against the regenerated Gen/*.v", out[-3000:])
    rc, out = coq_make("Spec/SpecMLDSA.vo")
    if rc != 0:
        raise Break("the specification no longer compiles against the regenerated Gen/*.v", out[-3000:])
    rc, out = sh("coqc -Q . F204 Extract.v", cwd=COQ, timeout=900)
    if rc != 0:
        raise Break("extraction failed", out[-3000:])
    rc, out = sh("ocamlfind ocamlopt -O3 -w -a -package str model.mli model.ml driver.ml -o driver", cwd=OCAML, timeout=900)
    if rc != 0:
        raise Break("OCaml driver build failed", out[-3000:])
    open(stamp, "w").write(want)
    return "rebuilt"


def build_harness(release=True):
    """cargo build of the harness against /repo's current working tree (hooks on), both profiles."""
    lock = os.path.join(HARNESS, "Cargo.lock")
    src = os.path.join(REPO, "Cargo.lock")
    if os.path.exists(src) and (not os.path.exists(lock)):
        import shutil
        shutil.copy(src, lock)
    outs = []
    for prof in (["--release"] if release else []) + [""]:
        cmd = "cargo build --offline -q " + prof
        rc, out = sh(cmd, cwd=HARNESS, timeout=1800)
        if rc != 0:
            raise Break("/repo no longer compiles with the verif-hooks harness (%s profile)" % (prof or "checked"), out[-4000:])
        outs.append(out)
    return outs


H_TRACE = os.path.join(HARNESS, "target-trace", "x86_64-unknown-linux-gnu", "release", "trace")
SANCOV_FLAGS = ("-Cpasses=sancov-module -Cllvm-args=-sanitizer-coverage-level=3 -Cllvm-args=-sanitizer-coverage-trace-pc-guard "
                "-Cllvm-args=-sanitizer-coverage-trace-loads -Cllvm-args=-sanitizer-coverage-trace-stores -Ccodegen-units=1")


def build_trace():
    """Trace harness (C14): the crate and the harness compiled with LLVM SanitizerCoverage, release settings."""
    env = dict(ENV, RUSTFLAGS=SANCOV_FLAGS)
    rc, out = sh("cargo build --offline -q --release --bin trace --target x86_64-unknown-linux-gnu --target-dir %s" % os.path.join(HARNESS, "target-trace"),
                 cwd=HARNESS, timeout=1800, env=env)
    if rc != 0:
        raise Break("/repo no longer compiles with the SanitizerCoverage trace harness", out[-4000:])


def setup_all():
    with Lock():
        regen()
        rc, out = coq_make()
        open(os.path.join(LOGS, "coq_build.log"), "w").write(out)
        if rc != 0:
            print(out[-3000:])
            raise SystemExit("coq build failed")
        build_driver()
        build_harness()
        build_trace()


# ------------------------------------------------------------------ proofs
FORBIDDEN = re.compile(r"\b(Admitted|admit|Axiom|Axioms|Parameter|Parameters|Conjecture|Conjectures|Hypothesis|Variable)\b|Unset\s+Guard|bypass_check|type-in-type|impredicative-set|Admit Obligations")


def audit_sources():
    """No Admitted/admit/Axiom/Parameter/Conjecture, no disabled kernel checks; Variable/Hypothesis only inside Sections."""
    bad = []
    for f in sorted(glob.glob(os.path.join(COQ, "**", "*.v"), recursive=True)):
        depth = 0
        txt = open(f).read()
        txt = re.sub(r"\(\*.*?\*\)", lambda m: " " * 0 + "\n" * m.group(0).count("\n"), txt, flags=re.S)
        for ln, line in enumerate(txt.splitlines(), 1):
            if re.match(r"\s*Section\b", line):
                depth += 1
            if re.match(r"\s*End\b", line) and depth > 0:
                depth -= 1
            m = FORBIDDEN.search(line)
            if m:
                w = m.group(0)
                if w in ("Variable", "Hypothesis") and depth > 0:
                    continue
                if w in ("Variable", "Hypothesis") and re.match(r"\s*(Variables?|Hypothes[ie]s)\b", line) is None:
                    continue
                bad.append("%s:%d: %s" % (os.path.relpath(f, VERIF), ln, line.strip()))
    _, out = sh("grep -rn -- '-type-in-type\\|-impredicative-set\\|-noinit' _CoqProject", cwd=COQ)
    if out.strip():
        bad.append("_CoqProject: " + out.strip())
    return bad


def prove(prop, extra_targets=()):
    """Regenerate Gen/, build Properties/<prop>.vo, audit assumptions.  Returns proof summary dict."""
    t0 = time.time()
    regen()
    target = "Properties/%s.vo" % prop
    vfile = os.path.join(COQ, "Properties", prop + ".v")
    if not os.path.exists(vfile):
        raise Break("no property file " + target)
    # force re-check of the property file itself so that its Print Assumptions output is fresh
    vo = os.path.join(COQ, "Properties", prop + ".vo")
    if os.path.exists(vo):
        os.remove(vo)
    rc, out = coq_make(target)
    open(os.path.join(LOGS, "%s.coq.log" % prop), "w").write(out)
    if rc != 0:
        m = re.search(r'File "([^"]+)", line (\d+)', out)
        where = "%s line %s" % (m.group(1), m.group(2)) if m else target
        raise Break("proof obligation no longer checks: %s (%s)" % (target, where), out[-3000:])
    bad = audit_sources()
    if bad:
        raise Break("source audit: forbidden construct in the development", "\n".join(bad))
    # theorems, pins and assumptions of the property file
    src = open(vfile).read()
    theorems = re.findall(r"^\s*(?:Theorem|Lemma|Corollary|Example)\s+(\w+)", src, flags=re.M)
    pins = re.findall(r"^\s*Check\s+\(?(\w+)", src, flags=re.M)
    blocks = re.split(r"(?=Closed under the global context|Axioms:)", out)
    closed = out.count("Closed under the global context")
    axioms = []
    for m in re.finditer(r"Axioms:\n((?:.+\n?)*?)(?=\n\S|\Z)", out):
        for line in m.group(1).splitlines():
            mm = re.match(r"\s*([\w.]+)\s*:", line)
            if mm:
                axioms.append(mm.group(1))
    unknown = [a for a in axioms if a not in ALLOWED_AXIOMS]
    if unknown:
        raise Break("assumptions audit: theorem depends on non-allowlisted axioms", ", ".join(sorted(set(unknown))))
    nprint = len(re.findall(r"^\s*Print Assumptions", src, flags=re.M))
    if closed + len(re.findall(r"Axioms:", out)) < nprint:
        raise Break("assumptions audit: fewer Print Assumptions reports than expected in " + target, out[-2000:])
    return {"file": "coq/Properties/%s.v" % prop, "theorems": theorems, "pinned": pins,
            "print_assumptions": nprint, "closed_under_global_context": closed,
            "axioms": sorted(set(axioms)), "coq_wall_s": round(time.time() - t0, 1)}


# ------------------------------------------------------------------ line-protocol runners
def _big_stack():
    # the extracted model recurses over message blocks: lift the stack limit for long messages
    import resource
    try:
        resource.setrlimit(resource.RLIMIT_STACK, (resource.RLIM_INFINITY, resource.RLIM_INFINITY))
    except Exception:
        try:
            soft, hard = resource.getrlimit(resource.RLIMIT_STACK)
            resource.setrlimit(resource.RLIMIT_STACK, (hard, hard))
        except Exception:
            pass


def _run_chunk(exe, lines, timeout):
    inp = ("\n".join(lines) + "\n").encode()
    p = subprocess.run([exe], input=inp, stdout=subprocess.PIPE, stderr=subprocess.PIPE, timeout=timeout, preexec_fn=_big_stack)
    out = p.stdout.decode().split("\n")
    if out and out[-1] == "":
        out.pop()
    if len(out) != len(lines):
        # process died (stack overflow / abort): mark the missing ones
        out = out + ["crash"] * (len(lines) - len(out))
    return out


def run_lines(exe, lines, jobs=None, timeout=3000):
    """Feed lines to `jobs` parallel instances of exe (round-robin for balance); outputs in input order."""
    if not lines:
        return []
    jobs = min(jobs or NPROC, len(lines))
    chunks = [[] for _ in range(jobs)]
    idx = [[] for _ in range(jobs)]
    for i, l in enumerate(lines):
        chunks[i % jobs].append(l)
        idx[i % jobs].append(i)
    res = [None] * len(lines)
    with ThreadPoolExecutor(max_workers=jobs) as ex:
        futs = [ex.submit(_run_chunk, exe, c, timeout) for c in chunks]
        for j, f in enumerate(futs):
            o = f.result()
            for k, i in enumerate(idx[j]):
                res[i] = o[k]
    return res


def run_all(lines, model=True, checked=True, release=True, model_jobs=None):
    """Run the same lines through model driver / checked harness / release harness concurrently."""
    with ThreadPoolExecutor(max_workers=3) as ex:
        fm = ex.submit(run_lines, DRIVER, lines, model_jobs) if model else None
        fc = ex.submit(run_lines, H_CHECKED, lines, 4) if checked else None
        fr = ex.submit(run_lines, H_RELEASE, lines, 4) if release else None
        return (fm.result() if fm else None, fc.result() if fc else None, fr.result() if fr else None)


def canon(s):
    """Canonical form for comparison: panic replies carry no payload."""
    if s is None:
        return None
    t = s.split(" ")
    if t[0] == "panic":
        return "panic"
    if len(t) > 1 and t[0] == "key" and t[1] == "panic":
        return "panic"
    return s


def diff3(lines, m, c, r):
    """Model vs checked vs release.  Rules: model Ok/Err => both builds return exactly that;
    model Panic => the checked build panics (release unconstrained: no claim after a wrap);
    model fuel => no claim (recorded).  Returns (disagreements, stats)."""
    dis = []
    st = {"agree": 0, "panic_agree": 0, "fuel": 0, "err": 0}
    for i, l in enumerate(lines):
        mi, ci, ri = canon(m[i]), canon(c[i]), canon(r[i]) if r else None
        if mi.startswith("fuel") or mi.startswith("key fuel"):
            st["fuel"] += 1
            continue
        if mi == "panic":
            if ci == "panic":
                st["panic_agree"] += 1
            else:
                dis.append({"line": l, "model": m[i][:300], "checked": c[i][:300], "release": (r[i][:300] if r else None), "kind": "model-panics-code-does-not"})
            continue
        if mi != ci or (r is not None and mi != ri):
            dis.append({"line": l, "model": m[i][:300], "checked": c[i][:300], "release": (r[i][:300] if r else None), "kind": "value"})
        else:
            st["agree"] += 1
            if mi.startswith("err") or mi.startswith("key err"):
                st["err"] += 1
    return dis, st


# ------------------------------------------------------------------ reporting
def known_findings():
    p = os.path.join(VERIF, "known_findings.txt")
    known, fixed = [], []
    if os.path.exists(p):
        for line in open(p):
            line = line.strip()
            if line.startswith("known:"):
                m = re.match(r"known:\s*property=(\w+)\s+(\S+)\s+(.*)", line)
                if m:
                    known.append((m.group(1), m.group(2), m.group(3)))
            elif line.startswith("fixed:"):
                fixed.append(line)
    return known, fixed


class Report:
    def __init__(self, prop, tier, seed):
        self.prop, self.tier, self.seed = prop, tier, seed
        self.t0 = time.time()
        self.violations = []     # dicts with key, what, replay data
        self.cov = {"evaluations": 0, "distinct_nontrivial": 0, "samples": [], "streams": {}}
        self.assumptions = []
        self.known_hit = []
        for f in glob.glob(os.path.join(REPLAY, prop + "-*.json")):
            os.remove(f)

    def stream(self, name, n, nontrivial, samples, extra=None):
        self.cov["evaluations"] += n
        self.cov["distinct_nontrivial"] += nontrivial
        self.cov["streams"][name] = dict({"cases": n, "distinct_nontrivial": nontrivial}, **(extra or {}))
        for s in samples[:2]:
            self.cov["samples"].append({"stream": name, "case": s if len(str(s)) < 300 else str(s)[:300] + "..."})

    def violation(self, key, what, data, found_input=True):
        self.violations.append({"key": key, "what": what, "data": data, "found_input": found_input})

    def finish(self, level, proof=None, rule="", explanation="", trusted=None, checker_cmd=""):
        known, _ = known_findings()
        real = []
        seen_keys = {}
        uniq = []
        for v in self.violations:
            seen_keys[v["key"]] = seen_keys.get(v["key"], 0) + 1
            if seen_keys[v["key"]] <= 2:
                uniq.append(v)
        for v in uniq:
            hit = [k for k in known if k[0] == self.prop and k[1] == v["key"]]
            if hit:
                if v["key"] not in self.known_hit:
                    print("KNOWN-FINDING: property=%s %s %s" % (self.prop, v["key"], hit[0][2]))
                    self.known_hit.append(v["key"])
            else:
                real.append(v)
        cov = self.cov
        cov["rule"] = rule
        cov["explanation"] = explanation
        cov["trusted_base"] = trusted or []
        cov["checker_cmd"] = checker_cmd
        if proof:
            cov["proof"] = proof
            cov["obligations"] = len(proof.get("theorems", []))
            cov["discharged"] = len(proof.get("theorems", [])) if not any(
                v["key"].startswith("proof") for v in real) else 0
        cov["known_findings_hit"] = self.known_hit
        ev = {"property_id": self.prop, "tier": self.tier, "seed": self.seed, "level": level,
              "coverage": cov, "assumptions": self.assumptions,
              "wall_s": round(time.time() - self.t0, 1), "violations": len(real)}
        with open(os.path.join(EVID, self.prop + ".json"), "w") as f:
            json.dump(ev, f, indent=1)
        if real:
            n = 0
            for v in real:
                path = os.path.join(REPLAY, "%s-%d.json" % (self.prop, n))
                while os.path.exists(path):
                    n += 1
                    path = os.path.join(REPLAY, "%s-%d.json" % (self.prop, n))
                with open(path, "w") as f:
                    json.dump({"property": self.prop, "key": v["key"], "what": v["what"], "seed": self.seed,
                               "tier": self.tier, "replay": v["data"]}, f, indent=1)
                tail = "" if v["found_input"] else " no-failing-input-found"
                print("VIOLATION property=%s replay=%s%s" % (self.prop, path, tail))
                n += 1
            return 1
        print("OK property=%s tier=%s evaluations=%d wall=%.1fs" % (self.prop, self.tier, cov["evaluations"], time.time() - self.t0))
        return 0


class Rng:
    """SplitMix64: every random choice derives from VERIF_SEED."""

    def __init__(self, seed):
        self.s = seed & 0xFFFFFFFFFFFFFFFF

    def next(self):
        self.s = (self.s + 0x9E3779B97F4A7C15) & 0xFFFFFFFFFFFFFFFF
        z = self.s
        z = ((z ^ (z >> 30)) * 0xBF58476D1CE4E5B9) & 0xFFFFFFFFFFFFFFFF
        z = ((z ^ (z >> 27)) * 0x94D049BB133111EB) & 0xFFFFFFFFFFFFFFFF
        return z ^ (z >> 31)

    def below(self, n):
        return self.next() % n

    def range(self, lo, hi):
        return lo + self.below(hi - lo + 1)

    def bytes(self, n):
        out = bytearray()
        while len(out) < n:
            out += self.next().to_bytes(8, "little")
        return bytes(out[:n])

    def hex(self, n):
        return self.bytes(n).hex() if n else "-"

    def choice(self, l):
        return l[self.below(len(l))]


def hx(b):
    return b.hex() if len(b) else "-"


PARAMS = {
    "44": dict(k=4, l=4, eta=2, tau=39, lam=128, g1=1 << 17, g2=(8380417 - 1) // 88, omega=80, beta=78, ld4=32, w1=768, sk=2560, pk=1312, sig=2420),
    "65": dict(k=6, l=5, eta=4, tau=49, lam=192, g1=1 << 19, g2=(8380417 - 1) // 32, omega=55, beta=196, ld4=48, w1=768, sk=4032, pk=1952, sig=3309),
    "87": dict(k=8, l=7, eta=2, tau=60, lam=256, g1=1 << 19, g2=(8380417 - 1) // 32, omega=75, beta=120, ld4=64, w1=1024, sk=4896, pk=2592, sig=4627),
}
Q = 8380417
