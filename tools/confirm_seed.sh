#!/bin/bash
# confirm_seed.sh <id> [features]: independently confirm a sub-agent's seeded change in a fresh scratch worktree:
#  builds, 40 tests pass with the patch, demo fails with it and passes without it.
set -u
ID=$1; FEAT=${2:-}
SRC=/tmp/seeded_out/$ID
WT=/tmp/wt/confirm_$ID
export CARGO_NET_OFFLINE=true
rm -rf $WT; git -C /repo worktree prune; git -C /repo worktree add -q --detach $WT HEAD || exit 2
cd $WT
cp $SRC/seeded_demo.rs tests/seeded_demo.rs
F=""; [ -n "$FEAT" ] && F="--features $FEAT"
echo "== demo WITHOUT patch"; cargo test --offline --test seeded_demo $F 2>&1 | grep -E "^test result|error(\[|:)" | head -5
git apply $SRC/patch.diff || { echo "PATCH DOES NOT APPLY"; exit 3; }
echo "== build WITH patch"; cargo build --offline 2>&1 | tail -1
echo "== suite WITH patch"; mv tests/seeded_demo.rs /tmp/seeded_demo_$ID.rs; cargo test --offline --workspace --no-fail-fast 2>&1 | grep -E "^test result|FAILED|failed" | head -12; mv /tmp/seeded_demo_$ID.rs tests/seeded_demo.rs
echo "== demo WITH patch"; cargo test --offline --test seeded_demo $F 2>&1 | grep -E "^test result|error(\[|:)" | head -5
cd /; git -C /repo worktree remove --force $WT
