#!/usr/bin/env python3
"""Translator T4: the arithmetic kernels of /repo/src/{helpers,high_low,ntt,conversion}.rs -> coq/Gen/Kernels.v.

Every run parses the current Rust source (tools/rustmini.py) and re-emits, for each kernel, a Gallina
definition in the result monad of Base/Mach.v with exactly the machine semantics the hand model uses:
  * `+ - *` and unary `-`, `.abs()` on i32/i64 are the *checked* operations (add32, mul64, ... :
    Panic on overflow, as the dev profile does); `wrapping_mul` wraps; `<<` by a constant wraps
    (shl32/shl64), `>>` is the arithmetic shift, `& | ^` are the two's-complement bit operations;
  * `as`/`from` widenings are the identity, `as i32` from i64 is wrap32;
  * `debug_assert!(c, msg)` / `debug_assert_eq!(a, b, msg)` are `guard c msg`;
  * operands are evaluated left to right, every checked operation is one `bind`;
  * `if c { return e; } rest` becomes `if c then e else rest`; a branch that assigns outer variables
    returns their new values.
Whole functions are translated for the scalar kernels; for the kernels that live inside closures or
loop bodies the selected expression / statement list is translated with each place expression
(`r[k].0[n]`, `*e`, ...) as one input variable (syntactically distinct places are distinct variables)
and the assigned places as outputs.

Proofs/KernelAgree.v proves each generated definition equal to the hand model's definition for every
input; so a change to a kernel's arithmetic breaks a proof obligation on the next run.  Anything outside
the understood subset raises TranslateError (the check reports the break) - the translator never guesses."""
import os, re, sys
sys.path.insert(0, os.path.dirname(os.path.abspath(__file__)))
import rustmini as R

VERIF = os.path.dirname(os.path.dirname(os.path.abspath(__file__)))
REPO = os.environ.get("F204_REPO", "/repo")


class TranslateError(Exception):
    pass


BITS = {"i8": 8, "i16": 16, "i32": 32, "i64": 64, "i128": 128, "u8": 8, "u16": 16, "u32": 32, "u64": 64, "usize": 64, "u128": 128}
ALIAS = {"Zq": "i32"}


def rng(ty):
    b = BITS[ty]
    if ty.startswith("i"):
        return -(1 << (b - 1)), (1 << (b - 1)) - 1
    return 0, (1 << b) - 1


def wrap(v, ty):
    b = BITS[ty]
    v &= (1 << b) - 1
    if ty.startswith("i") and v >> (b - 1):
        v -= 1 << b
    return v


def zlit(v):
    return str(v) if v >= 0 else "(%d)" % v


def norm_ty(t):
    t = t.replace(" ", "")
    return ALIAS.get(t, t)


class Val:
    """A translated expression: Coq term (pure, of type Z / bool / a tuple), Rust type, constant value if known."""

    def __init__(self, coq, ty, const=None, untyped=False):
        self.coq, self.ty, self.const, self.untyped = coq, ty, const, untyped


class Ctx:
    def __init__(self, gen, env, free_ok=False, hints=None):
        self.gen = gen
        self.env = dict(env)          # rust name -> Val
        self.lines = []               # emitted prefix lines of the current sequence
        self.free_ok = free_ok        # kernels cut out of a loop/closure: unknown names and places become inputs
        self.hints = hints or {}
        self.inputs = gen_inputs = []  # [(coq name, rust rendering, type)]
        self.places = {}              # rendering -> current Val
        self.assigned = []            # renderings of assigned places, in order of first assignment

    def child(self):
        c = Ctx(self.gen, self.env, self.free_ok, self.hints)
        c.inputs = self.inputs
        c.places = dict(self.places)
        c.assigned = list(self.assigned)
        return c


def render(e):
    k = e[0]
    if k == "var":
        return e[1]
    if k == "lit":
        return str(e[1]) + (e[2] or "")
    if k == "paren":
        return "(" + render(e[1]) + ")"
    if k == "field":
        return render(e[1]) + "." + e[2]
    if k == "index":
        return render(e[1]) + "[" + render(e[2]) + "]"
    if k == "deref":
        return "*" + render(e[1])
    if k == "bin":
        return render(e[2]) + " " + e[1] + " " + render(e[3])
    if k == "path":
        return "::".join(e[1])
    if k == "call":
        return render(e[1]) + "(" + ", ".join(render(a) for a in e[2]) + ")"
    if k == "mcall" and e[2] == "expect":
        return render(e[1])          # `.expect("..")` on a conversion that cannot fail
    if k == "mcall":
        return render(e[1]) + "." + e[2] + "(" + ", ".join(render(a) for a in e[3]) + ")"
    if k == "ref":
        return "&" + ("mut " if e[1] else "") + render(e[2])
    if k == "closure":
        return "|" + ", ".join(p[1] if p[0] == "pvar" else "_" for p in e[1]) + "| " + render(e[2])
    if k == "un":
        return e[1] + render(e[2])
    if k == "cast":
        return render(e[1]) + " as " + e[2]
    if k == "mcall" and e[2] == "expect":
        return render(e[1])
    raise TranslateError("cannot render expression %r" % (e[0],))


def is_place(e):
    return e[0] in ("index", "deref") or (e[0] == "field" and e[2].isdigit())


def untyped_literal(e):
    k = e[0]
    if k == "lit":
        return e[2] is None
    if k == "paren":
        return untyped_literal(e[1])
    if k == "un" and e[1] == "-":
        return untyped_literal(e[2])
    if k == "bin" and e[1] in ("+", "-", "*", "/", "<<", ">>", "&", "|", "^"):
        return untyped_literal(e[2]) and (untyped_literal(e[3]) or e[1] in ("<<", ">>"))
    return False


class Gen:
    """release = False: the checked (dev-profile) semantics in the result monad, definitions k_<name>.
    release = True: the release-profile semantics (wrapping arithmetic, debug assertions compiled out) as a pure function
    that also returns the leakage trace - the list of branch decisions (if / early return / short-circuit && ||) in
    evaluation order - definitions r_<name> : .. -> value * list bool."""

    def __init__(self, release=False):
        self.release = release
        self.prefix = "r_" if release else "k_"
        self.consts = {}      # crate-level constants: name -> (value, type)
        self.sigs = {}        # translated kernels: rust fn name -> (coq name, [param types], ret type)
        self.out = []
        self.ntemp = 0
        self.kernels = []     # (coq name, description)
        self.frag_names = []  # kernels cut out of closures / loop bodies

    # ------------------------------------------------------------ helpers
    def fresh(self):
        self.ntemp += 1
        return "t%d" % self.ntemp

    def const_fold(self, op, a, b, ty):
        if op == "+":
            v = a + b
        elif op == "-":
            v = a - b
        elif op == "*":
            v = a * b
        elif op == "/":
            if b == 0:
                raise TranslateError("constant division by zero")
            v = abs(a) // abs(b)
            if (a < 0) != (b < 0):
                v = -v
        elif op == "%":
            if b == 0:
                raise TranslateError("constant remainder by zero")
            v = abs(a) % abs(b)
            if a < 0:
                v = -v
        elif op == "<<":
            if not 0 <= b < BITS[ty]:
                raise TranslateError("constant shift amount out of range")
            v = wrap(a << b, ty)
            if v != a << b:
                raise TranslateError("constant `%d << %d` overflows %s (rustc rejects it)" % (a, b, ty))
        elif op == ">>":
            if not 0 <= b < BITS[ty]:
                raise TranslateError("constant shift amount out of range")
            v = a >> b
        elif op == "&":
            v = a & b
        elif op == "|":
            v = a | b
        elif op == "^":
            v = a ^ b
        else:
            raise TranslateError("constant operator " + op)
        lo, hi = rng(ty)
        if not lo <= v <= hi:
            raise TranslateError("constant expression overflows %s" % ty)
        return v

    # ------------------------------------------------------------ expressions
    def ex(self, e, c, want=None):
        k = e[0]
        if k == "paren":
            return self.ex(e[1], c, want)
        if k == "lit":
            ty = e[2] or want
            if ty is None:
                return Val(zlit(e[1]), "i32", e[1], untyped=True)
            ty = norm_ty(ty)
            if ty not in BITS:
                raise TranslateError("integer literal of non-integer type " + ty)
            lo, hi = rng(ty)
            if not lo <= e[1] <= hi:
                raise TranslateError("literal %d out of range for %s" % (e[1], ty))
            return Val(zlit(e[1]), ty, e[1])
        if k == "bool":
            return Val("true" if e[1] else "false", "bool", e[1])
        if k == "var":
            n = e[1]
            if n in c.env:
                return c.env[n]
            if n in self.consts:
                v, ty = self.consts[n]
                return Val(n if n in ("Q", "D", "ZETA") else zlit(v), ty, v)
            if c.free_ok:
                return self.input(c, n, n)
            raise TranslateError("unknown name " + n)
        if k == "index" and e[1][0] == "mcall" and e[1][2] == "to_le_bytes" and not e[1][3] and e[2] == ("lit", 0, None):
            a = self.ex(e[1][1], c, None)
            if a.ty not in BITS or a.untyped:
                raise TranslateError("to_le_bytes() on a non-integer")
            if a.const is not None:
                return Val(zlit(a.const % 256), "u8", a.const % 256)
            return Val("(%s mod 256)" % a.coq, "u8")      # the low byte of the two's-complement representation
        if is_place(e):
            key = render(e)
            if key in c.places:
                return c.places[key]
            if not c.free_ok:
                raise TranslateError("place expression %s in a whole-function kernel" % key)
            v = self.input(c, key, key)
            c.places[key] = v
            return v
        if c.free_ok and self.is_opaque(e):
            key = render(e)
            if key in c.env:
                return c.env[key]
            c.hints.setdefault(key, "i32")
            return self.input(c, key, key)
        if k == "un":
            if e[1] == "-":
                if untyped_literal(e[2]) and want is None:
                    a = self.ex(e[2], c, None)
                    return Val(zlit(-a.const), a.ty, -a.const, untyped=True)
                a = self.ex(e[2], c, want)
                if a.const is not None:
                    lo, hi = rng(a.ty)
                    if not lo <= -a.const <= hi:
                        raise TranslateError("constant negation overflows")
                    return Val(zlit(-a.const), a.ty, -a.const)
                if a.ty not in ("i32", "i64"):
                    raise TranslateError("negation at type " + a.ty)
                if self.release:
                    return Val("(wrap%s (- %s))" % (a.ty[1:], a.coq), a.ty)
                t = self.fresh()
                c.lines.append("%s <- neg%s %s ;;" % (t, a.ty[1:], a.coq))
                return Val(t, a.ty)
            if e[1] == "!":
                a = self.ex(e[2], c, want)
                if a.ty != "bool":
                    raise TranslateError("`!` on a non-boolean")
                return Val("(negb %s)" % a.coq, "bool")
        if k == "cast":
            tgt = norm_ty(e[2])
            a = self.ex(e[1], c, None)
            return self.cast(a, tgt)
        if k == "bin":
            return self.binop(e, c, want)
        if k == "tuple":
            vs = [self.ex(x, c) for x in e[1]]
            return Val("(" + ", ".join(v.coq for v in vs) + ")", ("tuple", [v.ty for v in vs]))
        if k == "call":
            return self.call(e, c, want)
        if k == "mcall":
            return self.mcall(e, c, want)
        if k == "if":
            return self.if_value(e, c, want)
        if k == "block":
            t = self.fresh()
            cc = c.child()
            term, ty = self.seq(e[1], 0, e[2], cc, want)
            if self.release:
                c.lines.append("let '(%s, tr) := (%s) in" % (t, term))
            else:
                c.lines.append("%s <- (%s) ;;" % (t, term))
            return Val(t, ty)
        raise TranslateError("expression outside the understood subset: %r" % (e[0],))

    opaque_calls = ()

    def is_opaque(self, e):
        """values a fragment kernel takes as inputs: calls of the listed (pure, i32-valued) crate functions on whole
        vectors, and iterator sums"""
        if e[0] == "call" and e[1][0] in ("var", "path"):
            name = e[1][1] if e[1][0] == "var" else e[1][1][-1]
            return name in self.opaque_calls
        if e[0] == "mcall" and e[2] == "sum":
            return True
        return False

    def input(self, c, key, rust):
        ty = norm_ty(c.hints.get(key) or c.hints.get(key.split("[")[0], "i32"))
        name = "x%d" % (len(c.inputs) + 1)
        c.inputs.append((name, rust, ty))
        v = Val(name, ty)
        c.env[key] = v
        return v

    def cast(self, a, tgt):
        if tgt not in BITS:
            raise TranslateError("cast to " + tgt)
        if a.untyped and a.const is not None:
            lo, hi = rng(tgt)
            if not lo <= a.const <= hi:
                raise TranslateError("literal out of range in cast")
            return Val(zlit(a.const), tgt, a.const)
        if a.ty not in BITS:
            raise TranslateError("cast from " + str(a.ty))
        slo, shi = rng(a.ty)
        tlo, thi = rng(tgt)
        if tlo <= slo and shi <= thi:
            return Val(a.coq, tgt, a.const)           # value-preserving
        if a.const is not None:
            v = wrap(a.const, tgt)
            return Val(zlit(v), tgt, v)
        if (a.ty, tgt) == ("i64", "i32"):
            return Val("(wrap32 %s)" % a.coq, "i32")
        raise TranslateError("cast %s -> %s is outside the understood subset" % (a.ty, tgt))

    def binop(self, e, c, want):
        op, l, r = e[1], e[2], e[3]
        if op in ("&&", "||"):
            a = self.ex(l, c, "bool")
            cc = c.child()
            b = self.ex(r, cc, "bool")
            if a.ty != "bool" or b.ty != "bool":
                raise TranslateError("`%s` on non-booleans" % op)
            if self.release:
                # short-circuit evaluation is a branch on the left operand
                c.lines.append("let tr := tr ++ [%s] in" % a.coq)
                if not cc.lines:
                    return Val("(%s %s %s)" % (a.coq, op, b.coq), "bool")
                t = self.fresh()
                rhs = "\n".join(cc.lines) + "\n(%s, tr)" % b.coq
                if op == "&&":
                    c.lines.append("let '(%s, tr) := (if %s then (%s) else (false, tr)) in" % (t, a.coq, rhs))
                else:
                    c.lines.append("let '(%s, tr) := (if %s then (true, tr) else (%s)) in" % (t, a.coq, rhs))
                return Val(t, "bool")
            if not cc.lines:
                return Val("(%s %s %s)" % (a.coq, op, b.coq), "bool")
            t = self.fresh()
            rhs = "\n".join(cc.lines) + "\nOk %s" % b.coq
            if op == "&&":
                c.lines.append("%s <- (if %s then (%s) else Ok false) ;;" % (t, a.coq, rhs))
            else:
                c.lines.append("%s <- (if %s then Ok true else (%s)) ;;" % (t, a.coq, rhs))
            return Val(t, "bool")
        cmp_ops = ("==", "!=", "<", ">", "<=", ">=")
        sub_want = None if op in cmp_ops else want
        if op in ("<<", ">>"):
            a = self.ex(l, c, sub_want)
            b = self.ex(r, c, None)
            if b.const is None:
                raise TranslateError("shift by a non-constant amount")
            if a.untyped and want is None:
                if a.const is None:
                    raise TranslateError("untyped non-constant")
                v = a.const << b.const if op == "<<" else a.const >> b.const
                return Val(zlit(v), "i32", v, untyped=True)
            ty = a.ty
            if ty not in BITS:
                raise TranslateError("shift at type " + str(ty))
            if not 0 <= b.const < BITS[ty]:
                raise TranslateError("shift amount out of range for " + ty)
            if a.const is not None:
                v = self.const_fold(op, a.const, b.const, ty)
                return Val(zlit(v), ty, v)
            if op == ">>":
                return Val("(shr %s %s)" % (a.coq, b.coq), ty)
            if ty in ("i32", "i64"):
                return Val("(shl%s %s %s)" % (ty[1:], a.coq, b.coq), ty)
            raise TranslateError("`<<` at type " + ty)
        # operand typing: an untyped literal takes the type of the other side
        if untyped_literal(l) and not untyped_literal(r):
            # a literal has no effects, so translating the right operand first keeps evaluation order
            b = self.ex(r, c, sub_want)
            a = self.ex(l, c, b.ty if b.ty in BITS else None)
        else:
            a = self.ex(l, c, sub_want)
            b = self.ex(r, c, a.ty if (a.ty in BITS and not a.untyped) else sub_want)
        if a.untyped and b.untyped:
            if op in cmp_ops:
                raise TranslateError("comparison of two literals")
            v = self.const_fold(op, a.const, b.const, "i128")
            return Val(zlit(v), "i32", v, untyped=True)
        if a.untyped:
            a = self.cast(a, b.ty)
        if b.untyped:
            b = self.cast(b, a.ty)
        if a.ty != b.ty:
            raise TranslateError("operands of `%s` have types %s and %s" % (op, a.ty, b.ty))
        ty = a.ty
        if op in cmp_ops:
            if ty == "bool":
                if op == "==":
                    return Val("(Bool.eqb %s %s)" % (a.coq, b.coq), "bool")
                if op == "!=":
                    return Val("(negb (Bool.eqb %s %s))" % (a.coq, b.coq), "bool")
                raise TranslateError("ordering on booleans")
            if ty not in BITS:
                raise TranslateError("comparison at type " + str(ty))
            s = {"==": "(%s =? %s)" % (a.coq, b.coq), "!=": "(negb (%s =? %s))" % (a.coq, b.coq),
                 "<": "(%s <? %s)" % (a.coq, b.coq), ">": "(%s <? %s)" % (b.coq, a.coq),
                 "<=": "(%s <=? %s)" % (a.coq, b.coq), ">=": "(%s <=? %s)" % (b.coq, a.coq)}[op]
            return Val(s, "bool")
        if ty == "bool":
            if op in ("&", "|", "^"):
                f = {"&": "andb", "|": "orb", "^": "xorb"}[op]
                return Val("(%s %s %s)" % (f, a.coq, b.coq), "bool")
            raise TranslateError("arithmetic on booleans")
        if ty not in BITS:
            raise TranslateError("arithmetic at type " + str(ty))
        if a.const is not None and b.const is not None:
            v = self.const_fold(op, a.const, b.const, ty)
            return Val(zlit(v), ty, v)
        if op in ("&", "|", "^"):
            f = {"&": "Z.land", "|": "Z.lor", "^": "Z.lxor"}[op]
            return Val("(%s %s %s)" % (f, a.coq, b.coq), ty)
        if op in ("+", "-", "*"):
            if ty not in ("i32", "i64"):
                raise TranslateError("checked `%s` at type %s is outside the understood subset" % (op, ty))
            if self.release:
                return Val("(wrap%s (%s %s %s))" % (ty[1:], a.coq, op, b.coq), ty)
            f = {"+": "add", "-": "sub", "*": "mul"}[op] + ty[1:]
            t = self.fresh()
            c.lines.append("%s <- %s %s %s ;;" % (t, f, a.coq, b.coq))
            return Val(t, ty)
        raise TranslateError("operator `%s` on non-constants is outside the understood subset" % op)

    def call(self, e, c, want):
        f, args = e[1], e[2]
        if f[0] == "path" and len(f[1]) == 2 and f[1][1] == "from" and f[1][0] in BITS and len(args) == 1:
            a = self.ex(args[0], c, None)
            if a.untyped:
                raise TranslateError("from() on an untyped literal")
            tgt = f[1][0]
            if a.ty == "bool":
                return Val("(Z.b2z %s)" % a.coq, tgt)
            slo, shi = rng(a.ty)
            tlo, thi = rng(tgt)
            if not (tlo <= slo and shi <= thi):
                raise TranslateError("%s::from(%s) is not a widening" % (tgt, a.ty))
            return Val(a.coq, tgt, a.const)
        if f[0] == "var" and f[1] in ("Ok", "Err") :
            raise TranslateError("Ok/Err outside tail position")
        fname = f[1] if f[0] == "var" else (f[1][-1] if f[0] == "path" and f[1][0] in ("helpers", "high_low", "crate") else None)
        if fname in self.sigs:
            f = ("var", fname)
            name, ptys, rty = self.sigs[f[1]]
            if len(args) != len(ptys):
                raise TranslateError("call of %s with %d arguments" % (f[1], len(args)))
            vs = [self.ex(a, c, pt) for a, pt in zip(args, ptys)]
            for v, pt in zip(vs, ptys):
                if v.ty != pt:
                    raise TranslateError("argument of %s has type %s, expected %s" % (f[1], v.ty, pt))
            t = self.fresh()
            if self.release:
                c.lines.append("let '(%s, tr1) := %s %s in" % (t, name, " ".join(v.coq for v in vs)))
                c.lines.append("let tr := tr ++ tr1 in")
            else:
                c.lines.append("%s <- %s %s ;;" % (t, name, " ".join(v.coq for v in vs)))
            return Val(t, rty)
        raise TranslateError("call of %s is outside the understood subset" % (render(f) if f[0] in ("var", "path") else "a computed function"))

    def mcall(self, e, c, want):
        recv, name, args = e[1], e[2], e[3]
        a = self.ex(recv, c, want)
        if name == "abs" and not args:
            if a.ty not in ("i32", "i64"):
                raise TranslateError(".abs() at type " + str(a.ty))
            if self.release:
                return Val("(wrap%s (Z.abs %s))" % (a.ty[1:], a.coq), a.ty)
            t = self.fresh()
            c.lines.append("%s <- abs%s %s ;;" % (t, a.ty[1:], a.coq))
            return Val(t, a.ty)
        if name == "wrapping_mul" and len(args) == 1:
            b = self.ex(args[0], c, a.ty)
            if b.untyped:
                b = self.cast(b, a.ty)
            if a.ty != b.ty or a.ty not in BITS:
                raise TranslateError("wrapping_mul operand types")
            if a.const is not None and b.const is not None:
                v = wrap(a.const * b.const, a.ty)
                return Val(zlit(v), a.ty, v)
            if a.ty not in ("i32", "i64"):
                raise TranslateError("wrapping_mul at type " + a.ty)
            return Val("(wrap%s (%s * %s))" % (a.ty[1:], a.coq, b.coq), a.ty)
        if name == "rem_euclid" and len(args) == 1:
            b = self.ex(args[0], c, a.ty)
            if b.untyped:
                b = self.cast(b, a.ty)
            if b.const is None or b.const <= 0 or a.ty != b.ty:
                raise TranslateError("rem_euclid by something other than a positive constant of the same type")
            if a.const is not None:
                v = a.const % b.const
                return Val(zlit(v), a.ty, v)
            return Val("(%s mod %s)" % (a.coq, b.coq), a.ty)
        raise TranslateError("method .%s() is outside the understood subset" % name)

    def if_value(self, e, c, want):
        cond = self.ex(e[1], c, "bool")
        if cond.ty != "bool":
            raise TranslateError("if condition is not boolean")
        if e[3] is None:
            raise TranslateError("if without else used as a value")
        if cond.const is not None:
            raise TranslateError("constant if condition")
        if self.release:
            c.lines.append("let tr := tr ++ [%s] in" % cond.coq)
        c1, c2 = c.child(), c.child()
        t1, ty1 = self.seq(e[2][1], 0, e[2][2], c1, want)
        t2, ty2 = self.seq(e[3][1], 0, e[3][2], c2, want)
        if ty1 != ty2:
            raise TranslateError("if branches have types %s and %s" % (ty1, ty2))
        if self.release:
            m1, m2 = re.match(r"^\((.*), tr\)$", t1, flags=re.S), re.match(r"^\((.*), tr\)$", t2, flags=re.S)
            if m1 and m2 and "\n" not in t1 + t2:
                return Val("(if %s then %s else %s)" % (cond.coq, m1.group(1), m2.group(1)), ty1)   # both branches pure
            t = self.fresh()
            c.lines.append("let '(%s, tr) := (if %s then (%s) else (%s)) in" % (t, cond.coq, t1, t2))
            return Val(t, ty1)
        if not c1.lines and not c2.lines and t1.startswith("Ok ") and t2.startswith("Ok ") and "\n" not in t1 + t2:
            return Val("(if %s then %s else %s)" % (cond.coq, t1[3:], t2[3:]), ty1)   # both branches pure
        t = self.fresh()
        c.lines.append("%s <- (if %s then (%s) else (%s)) ;;" % (t, cond.coq, t1, t2))
        return Val(t, ty1)

    # ------------------------------------------------------------ statements
    def finish(self, c, v):
        """term for `lines ;; Ok v`, with the last bind returned directly when it is the value."""
        if self.release:
            return "\n".join(list(c.lines) + ["(%s, tr)" % v.coq])
        lines = list(c.lines)
        if lines:
            m = re.match(r"^(\w+) <- (.*) ;;$", lines[-1], flags=re.S)
            if m and m.group(1) == v.coq and not m.group(2).startswith("("):
                return "\n".join(lines[:-1] + [m.group(2)])
        return "\n".join(lines + ["Ok %s" % v.coq])

    def tail(self, e, c, want):
        """term (and type) for an expression in tail position of a function / branch."""
        k = e[0]
        if k == "paren":
            return self.tail(e[1], c, want)
        if k == "return":
            return self.tail(e[1], c, want)
        if k == "call" and e[1][0] == "var" and e[1][1] == "Ok" and len(e[2]) == 1 and c.gen_result:
            v = self.ex(e[2][0], c, want)
            if self.release:
                return "\n".join(c.lines + ["(Some %s, tr)" % v.coq]), v.ty
            return self.finish(c, v), v.ty
        if k == "call" and e[1][0] == "var" and e[1][1] == "Err" and len(e[2]) == 1 and c.gen_result:
            if e[2][0][0] != "str":
                raise TranslateError("Err(..) of a non-literal")
            if self.release:
                return "\n".join(c.lines + ["(None, tr)"]), want
            return "\n".join(c.lines + ["Err %s" % self.err_of(e[2][0][1])]), want
        if k == "if" and e[3] is not None:
            cond = self.ex(e[1], c, "bool")
            if self.release:
                c.lines.append("let tr := tr ++ [%s] in" % cond.coq)
            c1, c2 = self.branch(c), self.branch(c)
            t1, ty1 = self.seq(e[2][1], 0, e[2][2], c1, want)
            t2, ty2 = self.seq(e[3][1], 0, e[3][2], c2, want)
            if ty1 != ty2:
                raise TranslateError("if branches have types %s and %s" % (ty1, ty2))
            if cond.const is not None:
                raise TranslateError("constant if condition")
            return "\n".join(c.lines + ["if %s then (%s) else (%s)" % (cond.coq, t1, t2)]), ty1
        if k == "block":
            return self.seq(e[1], 0, e[2], c, want)
        v = self.ex(e, c, want)
        if v.untyped and want in BITS:
            v = self.cast(v, want)
        return self.finish(c, v), v.ty

    def branch(self, c):
        cc = c.child()
        cc.gen_result = c.gen_result
        cc.outputs = getattr(c, "outputs", None)
        return cc

    def err_of(self, msg):
        for pat, name in self.err_map:
            if re.search(pat, msg):
                return name
        raise TranslateError("error message %r has no model error class" % msg)

    def diverges(self, block):
        """does the block always leave through `return`?"""
        stmts, tl = block[1], block[2]
        if tl is not None:
            return tl[0] == "return" or (tl[0] == "if" and tl[3] is not None and self.diverges(tl[2]) and self.diverges(tl[3]))
        if not stmts:
            return False
        last = stmts[-1]
        if last[0] == "expr":
            e = last[1]
            return e[0] == "return" or (e[0] == "if" and e[3] is not None and self.diverges(e[2]) and self.diverges(e[3]))
        return False

    def assigned_vars(self, block, c):
        """outer variables / places assigned somewhere inside the block (in order)."""
        out = []
        declared = set()

        def visit(n):
            if n[0] == "let":
                for p in R.find_all(n[1], lambda x: x[0] == "pvar"):
                    declared.add(p[1])
            if n[0] == "assign":
                lhs = n[2]
                key = lhs[1] if lhs[0] == "var" else render(lhs)
                if key not in declared and key not in out:
                    out.append(key)
        R.walk(block, lambda n: visit(n) if n and isinstance(n[0], str) else None)
        return out

    def assign(self, lhs, v, c):
        if lhs[0] == "var":
            name = lhs[1]
            if name not in c.env and name not in c.declared:
                raise TranslateError("assignment to unknown variable " + name)
            nm = "v_" + name
            c.lines.append("let %s := %s in" % (nm, v.coq))
            c.env[name] = Val(nm, v.ty)
            return
        if is_place(lhs) and c.free_ok:
            key = render(lhs)
            nm = "p%d" % (len(c.lines) + 1)
            c.lines.append("let %s := %s in" % (nm, v.coq))
            c.places[key] = Val(nm, v.ty)
            if key not in c.assigned:
                c.assigned.append(key)
            return
        raise TranslateError("assignment target outside the understood subset")

    def seq(self, stmts, i, tl, c, want):
        """term and type of the statement sequence stmts[i:] followed by the tail expression."""
        if not hasattr(c, "declared"):
            c.declared = set()
        if not hasattr(c, "gen_result"):
            c.gen_result = False
        while i < len(stmts):
            s = stmts[i]
            i += 1
            if s[0] == "const":
                cc = Ctx(self, {})
                v = self.ex(s[3], cc, norm_ty(s[2]))
                if v.untyped:
                    v = self.cast(v, norm_ty(s[2]))
                if v.const is None or cc.lines:
                    raise TranslateError("const %s is not a compile-time constant the translator can evaluate" % s[1])
                c.env[s[1]] = Val(zlit(v.const), norm_ty(s[2]), v.const)
                continue
            if s[0] == "let":
                pat, ty, init = s[1], s[2], s[3]
                if init is None:
                    if pat[0] != "pvar":
                        raise TranslateError("uninitialised pattern")
                    c.declared.add(pat[1])
                    continue
                wty = norm_ty(ty) if ty else None
                if pat[0] == "pvar":
                    v = self.ex(init, c, wty)
                    if v.untyped:
                        v = self.cast(v, wty or "i32")
                    if wty and v.ty != wty:
                        raise TranslateError("let %s: declared %s, computed %s" % (pat[1], wty, v.ty))
                    nm = "v_" + pat[1]
                    c.lines.append("let %s := %s in" % (nm, v.coq))
                    c.env[pat[1]] = Val(nm, v.ty, v.const)
                    continue
                if pat[0] == "ptuple" and all(p[0] == "pvar" for p in pat[1]):
                    v = self.ex(init, c, None)
                    if not (isinstance(v.ty, tuple) and len(v.ty[1]) == len(pat[1])):
                        raise TranslateError("tuple pattern against a non-tuple")
                    names = ["v_" + p[1] for p in pat[1]]
                    # the value is a bound temporary or a tuple expression
                    c.lines.append("let '(%s) := %s in" % (", ".join(names), v.coq))
                    for p, nm, t in zip(pat[1], names, v.ty[1]):
                        c.env[p[1]] = Val(nm, t)
                    continue
                raise TranslateError("let pattern outside the understood subset")
            if s[0] == "expr":
                e = s[1]
                if e[0] == "macro" and e[1] in ("debug_assert", "debug_assert_eq") and self.release:
                    continue          # compiled out in the release profile: its condition is never evaluated
                if e[0] == "macro" and e[1] in ("debug_assert", "debug_assert_eq"):
                    if e[1] == "debug_assert":
                        if len(e[2]) != 2 or e[2][1][0] != "str":
                            raise TranslateError("debug_assert! without a literal message")
                        v = self.ex(e[2][0], c, "bool")
                        msg = e[2][1][1]
                    else:
                        if len(e[2]) != 3 or e[2][2][0] != "str":
                            raise TranslateError("debug_assert_eq! without a literal message")
                        v = self.binop(("bin", "==", e[2][0], e[2][1]), c, "bool")
                        msg = e[2][2][1]
                    if v.ty != "bool":
                        raise TranslateError("assertion on a non-boolean")
                    c.lines.append('_ <- guard %s "%s" ;;' % (v.coq, msg))
                    continue
                if e[0] == "assign":
                    op, lhs, rhs = e[1], e[2], e[3]
                    if op == "=":
                        cur = c.env.get(lhs[1]) if lhs[0] == "var" else None
                        v = self.ex(rhs, c, cur.ty if cur else None)
                        if v.untyped:
                            v = self.cast(v, cur.ty if cur else "i32")
                    else:
                        v = self.binop(("bin", op[:-1], lhs, rhs), c, None)
                    self.assign(lhs, v, c)
                    continue
                if e[0] == "return":
                    return self.tail(e[1], c, want)
                if e[0] == "if":
                    cond_ast, th, el = e[1], e[2], e[3]
                    if el is None and self.diverges(th):
                        cond = self.ex(cond_ast, c, "bool")
                        if self.release:
                            c.lines.append("let tr := tr ++ [%s] in" % cond.coq)
                        c1 = self.branch(c)
                        c1.declared = set(c.declared)
                        t1, ty1 = self.seq(th[1], 0, th[2], c1, want)
                        c2 = self.branch(c)
                        c2.declared = set(c.declared)
                        t2, ty2 = self.seq(stmts, i, tl, c2, want)
                        if ty1 != ty2:
                            raise TranslateError("early return of type %s in a function of type %s" % (ty1, ty2))
                        return "\n".join(c.lines + ["if %s then (%s) else (%s)" % (cond.coq, t1, t2)]), ty1
                    if el is not None and self.diverges(th) and self.diverges(el):
                        return self.tail(e, c, want)
                    if el is not None and not self.diverges(th) and not self.diverges(el):
                        # both branches fall through: they may assign outer variables
                        vs = self.assigned_vars(("block", [("expr", e)], None), c)
                        if not vs:
                            raise TranslateError("if statement without effect")
                        cond = self.ex(cond_ast, c, "bool")
                        if self.release:
                            c.lines.append("let tr := tr ++ [%s] in" % cond.coq)
                        terms, tys = [], None
                        for blk in (th, el):
                            cb = self.branch(c)
                            cb.declared = set(c.declared)
                            if blk[2] is not None:
                                raise TranslateError("value of an if statement is discarded")
                            self.run(blk[1], cb)
                            outs = []
                            for key in vs:
                                v = cb.env.get(key) or cb.places.get(key)
                                if v is None:
                                    raise TranslateError("variable %s is not assigned on every path" % key)
                                outs.append(v)
                            tup = outs[0].coq if len(outs) == 1 else "(" + ", ".join(o.coq for o in outs) + ")"
                            terms.append("\n".join(cb.lines + [("(%s, tr)" if self.release else "Ok %s") % tup]))
                            if tys is not None and tys != [o.ty for o in outs]:
                                raise TranslateError("branches assign different types")
                            tys = [o.ty for o in outs]
                        names = []
                        for key, ty in zip(vs, tys):
                            nm = "v_" + re.sub(r"\W", "_", key)
                            names.append(nm)
                            if re.match(r"^\w+$", key):
                                c.env[key] = Val(nm, ty)
                            else:
                                c.places[key] = Val(nm, ty)
                                if key not in c.assigned:
                                    c.assigned.append(key)
                        binder = names[0] if len(names) == 1 else "'(%s)" % ", ".join(names)
                        if self.release:
                            inner = names[0] if len(names) == 1 else "(%s)" % ", ".join(names)
                            c.lines.append("let '(%s, tr) := (if %s then (%s) else (%s)) in" % (inner, cond.coq, terms[0], terms[1]))
                        else:
                            c.lines.append("%s <- (if %s then (%s) else (%s)) ;;" % (binder, cond.coq, terms[0], terms[1]))
                        continue
                    raise TranslateError("if statement shape outside the understood subset")
                raise TranslateError("statement outside the understood subset: %r" % (e[0],))
            raise TranslateError("statement outside the understood subset: %r" % (s[0],))
        if tl is None:
            outs = getattr(c, "outputs", None)
            if outs is not None:
                return self.finish_outputs(c), "outputs"
            raise TranslateError("sequence ends without a value")
        return self.tail(tl, c, want)

    def run(self, stmts, c):
        """translate statements for their effects on c (no value)."""
        marker = ("var", "__unit__")
        c.env["__unit__"] = Val("tt", "unit")
        term, _ = self.seq(stmts, 0, marker, c, None)
        # seq appended every effect to c.lines before reaching the marker; drop the final `Ok tt`
        return term

    def finish_outputs(self, c):
        outs = [c.places[k] for k in c.assigned]
        if not outs:
            raise TranslateError("statement kernel assigns nothing")
        if len(outs) == 1:
            return self.finish(c, outs[0])
        if self.release:
            return "\n".join(c.lines + ["((%s), tr)" % ", ".join(o.coq for o in outs)])
        return "\n".join(c.lines + ["Ok (%s)" % ", ".join(o.coq for o in outs)])

    # ------------------------------------------------------------ kernels
    def coq_type(self, ty):
        if ty == "bool":
            return "bool"
        if isinstance(ty, tuple):
            return "(" + " * ".join(self.coq_type(t) for t in ty[1]) + ")"
        if ty in BITS:
            return "Z"
        raise TranslateError("type %s has no model type" % (ty,))

    current = ""

    def emit(self, name, params, term, rty, comment):
        ps = " ".join("(%s : %s)" % (p, self.coq_type(t)) for p, t in params)
        body = "\n".join("  " + l for l in term.split("\n"))
        if self.release:
            rt = self.coq_type(rty)
            if getattr(self, "emit_option", False):
                rt = "option " + rt
            self.out.append("(* %s *)\nDefinition %s %s : %s * list bool :=\n  let tr := ([] : list bool) in\n%s.\n" % (comment, name, ps, rt, body))
        else:
            self.out.append("(* %s *)\nDefinition %s %s : res %s :=\n%s.\n" % (comment, name, ps, self.coq_type(rty), body))
        self.kernels.append((name, comment))

    def whole_fn(self, src, file, fname, result=False, const_generics=()):
        self.current = fname
        params, ret, body = R.find_fn(src, fname)
        ret = ret.replace(" ", "")
        if result:
            m = re.match(r"^Result<(.*),&'staticstr>$", ret)
            if not m:
                raise TranslateError("%s: return type %s is not Result<_, &'static str>" % (fname, ret))
            ret = m.group(1)
        if ret.startswith("("):
            rty = ("tuple", [norm_ty(x) for x in ret[1:-1].split(",")])
        else:
            rty = norm_ty(ret)
        env = {}
        plist = []
        for g in const_generics:
            env[g] = Val("c_" + g.lower(), "bool")
            plist.append(("c_" + g.lower(), "bool"))
        for p, ty in params:
            t = norm_ty(ty)
            if t == "[u8;3]":
                # a three-byte array parameter: its elements are the inputs
                for j in range(3):
                    plist.append(("v_%s%d" % (p, j), "u8"))
                env[p] = Val(None, "bytes3")
                continue
            if t not in BITS:
                raise TranslateError("%s: parameter %s has type %s" % (fname, p, t))
            env[p] = Val("v_" + p, t)
            plist.append(("v_" + p, t))
        c = Ctx(self, env)
        for p, ty in params:
            if norm_ty(ty) == "[u8;3]":
                for j in range(3):
                    c.places["%s[%d]" % (p, j)] = Val("v_%s%d" % (p, j), "u8")
                c.free_ok = False
        c.gen_result = result
        c.declared = set()
        self.ntemp = 0
        term, ty = self.seq(body[1], 0, body[2], c, rty if not isinstance(rty, tuple) else None)
        if ty != rty and not (result and ty is None):
            raise TranslateError("%s: body has type %s, signature says %s" % (fname, ty, rty))
        name = self.prefix + fname
        self.sigs[fname] = (name, [t for _, t in plist], rty)
        self.emit_option = result
        self.emit(name, plist, term, rty, "%s: fn %s" % (file, fname))
        self.emit_option = False

    def fragment(self, name, comment, node, hints=None, params=(), stmts=False, want=None):
        """kernel cut out of a closure / loop body.  `params`: names bound by the enclosing closure or loop
        that are inputs of the kernel (name -> type in hints, default i32)."""
        name = self.prefix + name[2:]
        self.current = name
        self.frag_names.append(name)
        c = Ctx(self, {}, free_ok=True, hints=hints or {})
        c.gen_result = False
        c.declared = set()
        self.ntemp = 0
        if stmts:
            c.outputs = True
            term, ty = self.seq(node, 0, None, c, None)
            outs = [c.places[k] for k in c.assigned]
            rty = outs[0].ty if len(outs) == 1 else ("tuple", [o.ty for o in outs])
            comment += "; inputs: " + ", ".join("%s = `%s`" % (n, r) for n, r, _ in c.inputs) + "; outputs: " + ", ".join("`%s`" % k for k in c.assigned)
        else:
            term, rty = self.tail(node, c, want)
            comment += "; inputs: " + ", ".join("%s = `%s`" % (n, r) for n, r, _ in c.inputs)
        self.emit(name, [(n, t) for n, _, t in c.inputs], term, rty, comment)


def read(p):
    return open(os.path.join(REPO, p), encoding="utf-8").read()


def crate_consts(g):
    lib = R.strip_comments(read("src/lib.rs"))
    for n in ("Q", "ZETA", "D"):
        m = re.search(r"^\s*(?:pub(?:\(crate\))?\s+)?const %s: (\w+) = ([0-9_]+);" % n, lib, flags=re.M)
        if not m:
            raise TranslateError("lib.rs: const %s not of the understood shape" % n)
        g.consts[n] = (int(m.group(2).replace("_", "")), m.group(1))


def closures(body, param=None):
    def ok(n):
        if n[0] != "closure":
            return False
        if param is None:
            return True
        names = [p[1] for p in R.find_all(n[1], lambda x: x[0] == "pvar")]
        return names == list(param)
    return R.find_all(body, ok)


def named_coef_closures(body):
    """[(name of the enclosing let / assignment, closure)] for every per-coefficient closure `|n| ..`, in source order."""
    out = []

    def visit(node, name):
        if isinstance(node, list):
            for x in node:
                visit(x, name)
            return
        if not isinstance(node, tuple) or not node or not isinstance(node[0], str):
            return
        if node[0] == "let" and node[1][0] == "pvar":
            visit(node[3], node[1][1])
            return
        if node[0] == "assign" and node[1] == "=" and node[2][0] == "var":
            visit(node[3], node[2][1])
            return
        if node[0] == "closure":
            names = [p[1] for p in R.find_all(node[1], lambda x: x[0] == "pvar")]
            if names == ["n"]:
                out.append((name, node))
                return
        for ch in node[1:]:
            if isinstance(ch, (tuple, list)):
                visit(ch, name)
    visit(body, None)
    return out


def one(lst, what):
    if len(lst) != 1:
        raise TranslateError("%s: expected exactly one, found %d" % (what, len(lst)))
    return lst[0]


def innermost_for(body, what):
    fors = R.find_all(body, lambda n: n[0] == "for")
    inner = [f for f in fors if not R.find_all(f[3], lambda n: n[0] in ("for", "while"))]
    return one(inner, what)


G_CURRENT = []


def generate(release=False):
    g = Gen(release)
    G_CURRENT[:] = [g]
    g.err_map = [(r"Alg 14: returns", "Reject"), (r"Alg 15: returns", "Reject")]
    crate_consts(g)
    g.out.append("(* GENERATED by tools/gen_kernels.py (T4) from /repo/src/helpers.rs, high_low.rs, ntt.rs, conversion.rs, ml_dsa.rs, lib.rs -- do not edit *)\n"
                 + ("(* release-profile semantics (wrapping arithmetic, no debug assertions) with the leakage trace: r_<name> returns\n"
                    "   (value, list of branch decisions in evaluation order) *)\n" if release else "")
                 + "Require Import ZArith List String Bool. Import ListNotations.\n"
                 "Require Import F204.Base.Util F204.Base.Mach F204.Gen.Params.\n"
                 "Open Scope string_scope. Open Scope list_scope. Open Scope Z_scope.\n")
    # name resolution: the kernels are identified by name, so a name must mean one thing everywhere: no renaming imports of
    # crate items, and each whole-function kernel is defined exactly once (the add-only hook wrappers aside)
    g.current = "imports"
    srcs = {f: R.strip_comments(read("src/" + f)) for f in ("lib.rs", "ml_dsa.rs", "helpers.rs", "high_low.rs", "ntt.rs", "conversion.rs", "encodings.rs", "hashing.rs", "types.rs")}
    for f, code in srcs.items():
        for m in re.finditer(r"\buse\s+((?:crate|super|self)\b[^;]*);", code):
            if re.search(r"\bas\s+\w+", m.group(1)):
                raise TranslateError("%s: renaming import `use %s;` (a kernel name could silently mean another function)" % (f, " ".join(m.group(1).split())))
    for fn in ("partial_reduce64", "partial_reduce32", "full_reduce32", "center_mod", "mont_reduce", "decompose", "high_bits", "low_bits",
               "make_hint", "use_hint", "power2round", "coeff_from_three_bytes", "coeff_from_half_byte", "is_in_range", "to_mont", "add_vector_ntt",
               "mat_vec_mul", "infinity_norm", "ntt", "inv_ntt", "hint_bit_unpack"):
        n = sum(len(re.findall(r"\bfn\s+%s\b" % fn, code)) for code in srcs.values())
        if n != 1:
            raise TranslateError("fn %s is defined %d times in the crate" % (fn, n))
    h = read("src/helpers.rs")
    for fn in ("partial_reduce64", "partial_reduce32", "full_reduce32", "center_mod", "mont_reduce"):
        g.whole_fn(h, "helpers.rs", fn)
    hl = read("src/high_low.rs")
    for fn in ("decompose", "high_bits", "low_bits", "make_hint", "use_hint"):
        g.whole_fn(hl, "high_low.rs", fn)
    cv = read("src/conversion.rs")
    g.whole_fn(cv, "conversion.rs", "coeff_from_three_bytes", result=True, const_generics=("CTEST",))
    g.whole_fn(cv, "conversion.rs", "coeff_from_half_byte", result=True, const_generics=("CTEST",))

    # ---- kernels inside closures / loop bodies
    _, _, b = R.find_fn(h, "is_in_range")
    cl = one(closures(b), "is_in_range closure")
    g.fragment("k_in_range_elem", "helpers.rs: is_in_range, the closure body", cl[2], want="bool")
    _, _, b = R.find_fn(h, "to_mont")
    cl = one(closures(b, ("n",)), "to_mont inner closure")
    g.fragment("k_to_mont_coef", "helpers.rs: to_mont, the per-coefficient closure body", cl[2])
    _, _, b = R.find_fn(h, "add_vector_ntt")
    cl = one(closures(b, ("n",)), "add_vector_ntt inner closure")
    g.fragment("k_add_coef", "helpers.rs: add_vector_ntt, the per-coefficient closure body", cl[2])
    _, _, b = R.find_fn(h, "mat_vec_mul")
    cl = one(closures(b, ("n", "e")), "mat_vec_mul inner closure")
    if cl[2][0] != "block":
        raise TranslateError("mat_vec_mul: closure body is not a block")
    g.fragment("k_acc_coef", "helpers.rs: mat_vec_mul, the per-coefficient closure body", cl[2][1] + ([("expr", cl[2][2])] if cl[2][2] else []), stmts=True)
    _, _, b = R.find_fn(h, "infinity_norm")
    cl = one(closures(b, ("element",)), "infinity_norm map closure")
    g.fragment("k_abs_center", "helpers.rs: infinity_norm, the map closure body", cl[2])

    _, _, b = R.find_fn(hl, "power2round")
    cls = closures(b, ("n",))
    if len(cls) != 2:
        raise TranslateError("power2round: expected two per-coefficient closures, found %d" % len(cls))
    g.fragment("k_p2r_hi", "high_low.rs: power2round, the r_1 closure body", cls[0][2])
    g.fragment("k_p2r_lo", "high_low.rs: power2round, the r_0 closure body", cls[1][2])
    eqs = R.find_all(b, lambda n: n[0] == "bin" and n[1] == "==" and is_place(n[2]))
    g.fragment("k_p2r_check", "high_low.rs: power2round, the reconstruction test", one(eqs, "power2round reconstruction test"), want="bool")

    nt = read("src/ntt.rs")
    _, _, b = R.find_fn(nt, "ntt")
    f = innermost_for(b, "ntt butterfly loop")
    g.fragment("k_ntt_butterfly", "ntt.rs: ntt, the body of the innermost loop", f[3][1], hints={"zeta": "i64"}, stmts=True)
    _, _, b = R.find_fn(nt, "inv_ntt")
    cl = one(closures(b, ("n",)), "inv_ntt input closure")
    g.fragment("k_inv_input", "ntt.rs: inv_ntt, the input reduction closure body", cl[2])
    zl = R.find_all(b, lambda n: n[0] == "let" and n[1] == ("pvar", "zeta"))
    g.fragment("k_inv_zeta", "ntt.rs: inv_ntt, `let zeta = ..`", one(zl, "inv_ntt zeta")[3])
    fors = R.find_all(b, lambda n: n[0] == "for" and not R.find_all(n[3], lambda m: m[0] in ("for", "while")))
    if len(fors) != 2:
        raise TranslateError("inv_ntt: expected the butterfly loop and the final scaling loop, found %d innermost loops" % len(fors))
    g.fragment("k_inv_butterfly", "ntt.rs: inv_ntt, the body of the innermost butterfly loop", fors[0][3][1], stmts=True)
    # F_MONT is a function-local constant
    fm = R.find_all(b, lambda n: n[0] == "const" and n[1] == "F_MONT")
    fmv = eval_const(one(fm, "inv_ntt F_MONT")[3], g)
    g.consts["F_MONT"] = (fmv, "i64")
    if not release:
        g.out.append("Definition k_F_MONT : Z := %d.\n" % fmv)
    g.fragment("k_inv_final", "ntt.rs: inv_ntt, the body of the final scaling loop", fors[1][3][1], stmts=True)
    # ---- ml_dsa.rs / lib.rs: every per-coefficient closure, named after the vector it defines; the two rejection
    # tests of the signing loop and the norm test of verification (norms and hint counts are inputs)
    g.opaque_calls = ("infinity_norm",)
    ml = read("src/ml_dsa.rs")
    lib = read("src/lib.rs")
    for src, file, fn, occ, tag in ((ml, "ml_dsa.rs", "key_gen_internal", 0, "keygen"), (ml, "ml_dsa.rs", "sign_internal", 0, "sign"),
                                    (ml, "ml_dsa.rs", "verify_internal", 0, "verify"), (ml, "ml_dsa.rs", "expand_private", 0, "expand_private"),
                                    (ml, "ml_dsa.rs", "expand_public", 0, "expand_public"),
                                    (ml, "ml_dsa.rs", "private_to_public_key", 0, "sk_to_pk"),
                                    (lib, "lib.rs", "into_bytes", 0, "sk_bytes"), (lib, "lib.rs", "into_bytes", 1, "pk_bytes")):
        _, _, b = R.find_fn(src, fn, occ)
        seen = {}
        for nm, cl in named_coef_closures(b):
            if nm is None:
                raise TranslateError("%s: a per-coefficient closure outside any let" % fn)
            seen[nm] = seen.get(nm, 0) + 1
            kn = "k_%s_%s" % (tag, nm) + ("" if seen[nm] == 1 else "_%d" % seen[nm])
            g.fragment(kn, "%s: fn %s, per-coefficient closure of `%s`" % (file, fn, nm), cl[2], hints={"CTEST": "bool"})
        if fn == "sign_internal":
            conts = R.find_all(b, lambda n: n[0] == "if" and n[3] is None and R.find_all(n[2], lambda m: m == ("continue",)))
            if len(conts) != 2:
                raise TranslateError("sign_internal: expected two rejection tests (if .. { .. continue }), found %d" % len(conts))
            g.fragment("k_sign_reject1", "ml_dsa.rs: fn sign_internal, first rejection test", conts[0][1], hints={"CTEST": "bool"}, want="bool")
            g.fragment("k_sign_reject2", "ml_dsa.rs: fn sign_internal, second rejection test", conts[1][1], hints={"CTEST": "bool"}, want="bool")
            # the counter bookkeeping of the rejection loop, as text: initial value, limit, and for each of the two exits the
            # limit test and the increment (the statements of the `if .. { ensure!(..); kappa_ctr += ..; continue; }` blocks)
            steps = []
            for cnt in conts:
                st = cnt[2][1]
                if (len(st) != 3 or cnt[2][2] is not None or st[0][0] != "expr" or st[0][1][0] != "macro" or st[0][1][1] != "ensure"
                        or st[1][0] != "expr" or st[1][1][0] != "assign" or st[1][1][1] != "+=" or st[1][1][2] != ("var", "kappa_ctr")
                        or st[2] != ("expr", ("continue",))):
                    raise TranslateError("sign_internal: a rejection exit is no longer `ensure!(..); kappa_ctr += ..; continue;`")
                steps.append((render(st[0][1][2][0]), render(st[1][1][3])))
            init = one(R.find_all(b, lambda n: n[0] == "let" and n[1] == ("pvar", "kappa_ctr")), "sign_internal `let mut kappa_ctr`")
            kmax = one(R.find_all(b, lambda n: n[0] == "let" and n[1] == ("pvar", "kappa_max")), "sign_internal `let kappa_max`")
            if not release:
              g.out.append("(* ml_dsa.rs: fn sign_internal, counter bookkeeping of the rejection loop (source text) *)\n"
                         "Definition k_sign_kappa_init : string := \"%s\".\nDefinition k_sign_kappa_max : string := \"%s\".\n"
                         "Definition k_sign_kappa_steps : list (string * string) := [%s].\n"
                         % (render(init[3]), render(kmax[3]), "; ".join('("%s", "%s")' % x for x in steps)))
        if fn == "verify_internal":
            left = one(R.find_all(b, lambda n: n[0] == "let" and n[1] == ("pvar", "left")), "verify_internal `let left`")
            g.fragment("k_verify_left", "ml_dsa.rs: fn verify_internal, `let left = ..`", left[3], want="bool")
            if b[2] != ("bin", "&&", ("var", "left"), ("var", "right")):
                raise TranslateError("verify_internal: the result is no longer `left && right`")
            right = one(R.find_all(b, lambda n: n[0] == "let" and n[1] == ("pvar", "right")), "verify_internal `let right`")
            if right[3] != ("bin", "==", ("var", "c_tilde"), ("var", "c_tilde_p")):
                raise TranslateError("verify_internal: `right` is no longer `c_tilde == c_tilde_p`")
    # ---- conversion.rs: hint_bit_unpack, every exit / loop condition in source order
    _, _, b = R.find_fn(cv, "hint_bit_unpack")
    conds = []
    R.walk(b, lambda n: conds.append(n[1]) if (n and isinstance(n[0], str) and (
        n[0] == "while" or (n[0] == "if" and R.find_all(n[2], lambda m: m[0] == "return" or m == ("break",) or m == ("continue",))))) else None)
    if len(conds) != 5:
        raise TranslateError("hint_bit_unpack: expected 5 exit/loop conditions (while, and if .. return/break/continue), found %d" % len(conds))
    hb_hints = {"y_bytes": "u8", "index": "u8", "first": "u8"}
    for i, cnd in enumerate(conds):
        g.fragment("k_hbu_cond%d" % (i + 1), "conversion.rs: fn hint_bit_unpack, condition %d" % (i + 1), cnd, hints=dict(hb_hints), want="bool")
    fors = R.find_all(b, lambda n: n[0] == "for")
    if len(fors) != 2 or fors[1][2][0] != "range" or fors[1][2][3] or fors[1][2][1] != ("var", "index"):
        raise TranslateError("hint_bit_unpack: the trailing-zero loop is no longer `for i in index..<bound>`")
    g.fragment("k_hbu_tail_bound", "conversion.rs: fn hint_bit_unpack, upper bound of the trailing-zero loop", fors[1][2][2], hints=dict(hb_hints))
    g.out.append("Definition %s : list string := [%s].\n" % ("leak_kernel_names" if release else "kernel_names", "; ".join('"%s"' % k for k, _ in g.kernels)))
    if not release:
        g.out.append("(* the kernels cut out of closures and loop bodies, for proofs that unfold them (Proofs/KernelAgree.v) *)\n"
                     "Create HintDb kfragdb.\n#[export] Hint Unfold %s : kfragdb.\n" % " ".join(g.frag_names))
    return "\n".join(g.out)


def eval_const(e, g):
    """compile-time evaluation of a constant expression with i128 intermediates (F_MONT)."""
    k = e[0]
    if k == "paren":
        return eval_const(e[1], g)
    if k == "lit":
        return e[1]
    if k == "var" and e[1] in g.consts:
        return g.consts[e[1]][0]
    if k == "cast":
        v = eval_const(e[1], g)
        t = norm_ty(e[2])
        if t not in BITS:
            raise TranslateError("const cast to " + t)
        return wrap(v, t)
    if k == "bin":
        return g.const_fold(e[1], eval_const(e[2], g), eval_const(e[3], g), "i128")
    if k == "mcall" and e[2] == "wrapping_mul":
        return wrap(eval_const(e[1], g) * eval_const(e[3][0], g), "i128")
    if k == "mcall" and e[2] == "rem_euclid":
        m = eval_const(e[3][0], g)
        if m <= 0:
            raise TranslateError("const rem_euclid by a non-positive value")
        return eval_const(e[1], g) % m
    raise TranslateError("constant expression outside the understood subset")


def main():
    for release, fname in ((False, "Kernels.v"), (True, "KernelsLeak.v")):
        try:
            text = generate(release)
        except (TranslateError, R.ParseError) as ex:
            print("TRANSLATOR T4 ABORT (%s%s): %s" % (G_CURRENT[0].current if G_CURRENT else "?", ", release/leakage pass" if release else "", ex))
            return 2
        path = os.path.join(VERIF, "coq", "Gen", fname)
        old = open(path).read() if os.path.exists(path) else None
        if old != text:
            open(path, "w").write(text)
            print("Gen/%s rewritten" % fname)
        else:
            print("Gen/%s unchanged" % fname)
    return 0


if __name__ == "__main__":
    sys.exit(main())
