#!/usr/bin/env python3
"""Writes /verif/MANIFEST.json from the table below (kept here so that the manifest stays
consistent with what tools/streams.py actually implements)."""
import json, os
VERIF = os.path.dirname(os.path.dirname(os.path.abspath(__file__)))

# id -> (category, technique, text, note, design_ref)
CHECKS = {
}

NOT_YET = {
}


def load_table():
    p = os.path.join(VERIF, "tools", "manifest_table.json")
    return json.load(open(p))


def main():
    t = load_table()
    checks = []
    for pid, c in sorted(t["checks"].items()):
        checks.append({
            "property_id": pid,
            "quick_cmd": "python3 tools/check.py %s --tier quick" % pid,
            "thorough_cmd": "python3 tools/check.py %s --tier thorough" % pid,
            "evidence_file": "evidence/%s.json" % pid,
            "replay_cmd_template": "python3 tools/check.py %s --replay {path}" % pid,
            "engine": "coq",
            "level_claimed": {"category": c["category"], "text": c["text"], "design_ref": c.get("design_ref", "DESIGN.md section 7")},
            "level_note": c["note"],
            "technique": c["technique"],
        })
    m = {
        "version": 1,
        "setup_cmd": "python3 tools/setup.py",
        "hooks": {
            "guard": "verif-hooks",
            "enable": "cargo feature: harness/Cargo.toml depends on fips204 = { path = \"/repo\", features = [\"verif-hooks\", \"dudect\"] }; built by `cargo build --offline` in /verif/harness (checked and --release)",
            "baseline_off_cmd": "cd /repo && cargo test --workspace --no-fail-fast --offline",
            "source_commits": ["be6a9bcf65f247806e0a940eae2413a65523c0b0"],
            "add_only": True,
        },
        "engines": [
            {"name": "coq", "path": "coq/", "serves_properties": sorted(t["checks"].keys()),
             "kind_free_text": "Coq 8.16.1 development: Gen/ (regenerated from /repo), Impl/ (model of the crate), Spec/ (FIPS 204 transcription), Proofs/, Properties/Cxx.v"},
            {"name": "driver", "path": "ocaml/", "serves_properties": sorted(t["checks"].keys()),
             "kind_free_text": "models extracted with ExtrOcamlBasic + line-protocol driver (correspondence, spec oracle)"},
            {"name": "harness", "path": "harness/", "serves_properties": sorted(t["checks"].keys()),
             "kind_free_text": "Rust crate over /repo (verif-hooks), checked and release profiles, same line protocol"},
        ],
        "checks": checks,
        "notes": t.get("notes", ""),
        "not_applicable": [{"property_id": k, "reason": v} for k, v in sorted(t["not_applicable"].items())],
    }
    with open(os.path.join(VERIF, "MANIFEST.json"), "w") as f:
        json.dump(m, f, indent=1)
    print("MANIFEST.json: %d checks, %d not_applicable" % (len(checks), len(m["not_applicable"])))


if __name__ == "__main__":
    main()
