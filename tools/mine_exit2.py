#!/usr/bin/env python3
"""Mine signing inputs whose rejection loop leaves at least once through its SECOND exit (FIPS 204 Alg 7 step 28:
||c*t0||inf >= gamma2 or more than omega hints) before a later attempt is accepted.  Found by differential runs of the
real crate against a scratch copy whose second exit advances kappa by L+1 (argv[1] = that copy's release harness); each
hit is confirmed against the FIPS 204 transcription and appended to corpus/rare_sign.jsonl.  Run by hand on a green tree;
never at check time."""
import sys, os, json, hashlib
sys.path.insert(0, os.path.dirname(os.path.abspath(__file__)))
from common import *
import streams as S

def main():
    alt = sys.argv[1]
    per = int(sys.argv[2]) if len(sys.argv) > 2 else 3
    rng = Rng(int(os.environ.get("VERIF_SEED", "78")))
    out = []
    for setid in S.SETS:
        xi, rnd = rng.hex(32), rng.hex(32)
        want = per
        i = 0
        while want > 0 and i < 200000:
            batch = [(S.MODES[(i + j) % 4], (i + j).to_bytes(4, "little").hex(), "65786974") for j in range(2000)]
            lines = ["sign %s s:%s f%s %s %s %s" % (setid, xi, rnd, m, c, md) for (md, m, c) in batch]
            a = run_lines(H_RELEASE, lines, 16)
            b = run_lines(alt, lines, 16)
            for (md, m, c), x, y in zip(batch, a, b):
                if x != y and want > 0 and x.startswith("ok "):
                    want -= 1
                    out.append({"set": setid, "xi": xi, "rnd": rnd, "msg": m, "ctx": c, "mode": md,
                                "event": "an attempt rejected at the second exit (step 28) before acceptance",
                                "sig_sha256": hashlib.sha256(bytes.fromhex(x.split(" ")[1])).hexdigest()})
            i += 2000
            print(setid, i, want, flush=True)
    sk = {}
    for c in out:
        if (c["set"], c["xi"]) not in sk:
            sk[(c["set"], c["xi"])] = S.keys_for(c["set"], c["xi"])[1]
    sl = ["spec_sign %s %s %s %s %s %s" % (c["set"], sk[(c["set"], c["xi"])], c["rnd"], c["msg"], c["ctx"], c["mode"]) for c in out]
    so = run_lines(DRIVER, sl)
    path = os.path.join(VERIF, "corpus", "rare_sign.jsonl")
    have = open(path).read()
    with open(path, "a") as f:
        for c, o in zip(out, so):
            ok = o.startswith("ok ") and hashlib.sha256(bytes.fromhex(o.split(" ")[1])).hexdigest() == c["sig_sha256"]
            print(c["set"], c["msg"], "spec agrees" if ok else "SPEC DISAGREES: " + o[:40])
            if ok and c["sig_sha256"] not in have:
                f.write(json.dumps(c) + "\n")
main()
