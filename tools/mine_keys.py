#!/usr/bin/env python3
"""Mine key-generation seeds that hit the rare event `NTT^-1(A s1) + s2` leaving [0, q-1] before its
full reduction (some coefficient >= q, or < 0), using the real crate's hooks on the current tree, confirm
each against the FIPS 204 transcription (Spec), and write corpus/rare_keys.jsonl."""
import sys, os, json, hashlib
sys.path.insert(0, os.path.dirname(os.path.abspath(__file__)))
from common import *
import streams as S

def main():
    per = int(sys.argv[1]) if len(sys.argv) > 1 else 2
    out = []
    for setid in S.SETS:
        P = PARAMS[setid]
        want = {"ge_q": per, "neg": per}
        i = 0
        while (want["ge_q"] > 0 or want["neg"] > 0) and i < 200000:
            seeds = [(i + j).to_bytes(8, "little").hex() + "00" * 24 for j in range(512)]
            # rho, rho' from H(xi || k || l)
            hs = []
            for xi in seeds:
                h = hashlib.shake_256(bytes.fromhex(xi) + bytes([P["k"], P["l"]])).digest(128)
                hs.append((h[:32].hex(), h[32:96].hex()))
            es = run_lines(H_RELEASE, ["exps %s 0 %s" % (setid, rp) for (_, rp) in hs], 16)
            ea = run_lines(H_RELEASE, ["expa %s 0 %s" % (setid, r) for (r, _) in hs], 16)
            n1 = run_lines(H_RELEASE, ["ntt_l %s %s" % (setid, e.split(" ")[1]) for e in es], 16)
            mv = run_lines(H_RELEASE, ["matvec %s %s %s" % (setid, a[3:], n[3:]) for a, n in zip(ea, n1)], 16)
            iv = run_lines(H_RELEASE, ["invntt_k %s %s" % (setid, m[3:]) for m in mv], 16)
            for xi, e, v in zip(seeds, es, iv):
                s2 = [[int(x) for x in p.split(",")] for p in e.split(" ")[2].split(";")]
                as1 = [[int(x) for x in p.split(",")] for p in v[3:].split(";")]
                mx = max(a + b for pa, pb in zip(as1, s2) for a, b in zip(pa, pb))
                mn = min(a + b for pa, pb in zip(as1, s2) for a, b in zip(pa, pb))
                ev = None
                if mx >= Q and want["ge_q"] > 0:
                    ev = "ge_q"
                elif mn < 0 and want["neg"] > 0:
                    ev = "neg"
                if ev:
                    want[ev] -= 1
                    out.append({"set": setid, "xi": xi, "event": "A*s1+s2 coefficient >= q before reduction" if ev == "ge_q" else "A*s1+s2 coefficient < 0 before reduction"})
            i += 512
            print(setid, i, want, flush=True)
    so = run_lines(DRIVER, ["spec_keygen %s %s" % (c["set"], c["xi"]) for c in out])
    ro = run_lines(H_RELEASE, ["keygen_seed %s %s" % (c["set"], c["xi"]) for c in out], 8)
    keep = []
    for c, s, r in zip(out, so, ro):
        ok = s == " ".join(r.split(" ")[:3])
        print(c["set"], c["event"], c["xi"][:16], "spec agrees" if ok else "SPEC DISAGREES")
        if ok:
            c["pk_sha256"] = hashlib.sha256(bytes.fromhex(s.split(" ")[1])).hexdigest()
            keep.append(c)
    with open(os.path.join(VERIF, "corpus", "rare_keys.jsonl"), "w") as f:
        for c in keep:
            f.write(json.dumps(c) + "\n")
    print("kept", len(keep))
main()
