#!/usr/bin/env python3
"""Construct in-range response polynomials z whose forward NTT has one coefficient of extreme magnitude (the lazy i32
butterflies do not reduce: |NTT(z)[0]| above 4q).  For an input supported on {0, 1, 2, 4, .., 128} output 0 is
z[0] + sum_k mont_reduce(zeta[m_k] * z[len_k]) with independent terms, so each coefficient is chosen by exhaustive search over its
range.  Hash-derived data never gets there (about 1e-14 per coefficient); an attacker's signature can.  Confirmed with the
crate's ntt hook.  Writes corpus/adversarial_z.jsonl.  Run by hand; never at check time."""
import sys, os, json
sys.path.insert(0, os.path.dirname(os.path.abspath(__file__)))
from common import *
import streams as S
QINV = 58728449

def mr(a):
    t = (a * QINV) & 0xffffffff
    if t >= 1 << 31:
        t -= 1 << 32
    return (a - t * Q) >> 32

def main():
    zetas = [int(x) for x in run_lines(H_RELEASE, ["zetas"], 1)[0].split(" ")[1].split(",")]
    out = []
    for setid in S.SETS:
        P = PARAMS[setid]; B = P["g1"] - P["beta"] - 1
        for sign in (1, -1):
            z = [0] * 256
            z[0] = sign * B
            ln, m = 128, 1
            while ln >= 1:
                best, bv = None, None
                for v in range(-B, B + 1):
                    t = mr(zetas[m] * v) * sign
                    if best is None or t > best:
                        best, bv = t, v
                z[ln] = bv
                ln >>= 1; m <<= 1
            vec = ";".join([",".join(str(x) for x in z)] + [",".join(["0"] * 256)] * (P["l"] - 1))
            o = run_lines(H_RELEASE, ["ntt_l %s %s" % (setid, vec)], 1)[0]
            peak = int(o.split(" ")[1].split(";")[0].split(",")[0])
            print(setid, sign, peak, round(peak / Q, 3), flush=True)
            out.append({"set": setid, "z0": z, "peak": peak, "event": "NTT(z)[0] = %d = %.3f q for an in-range z supported on {0,1,2,4,..,128}" % (peak, peak / Q)})
    with open(os.path.join(VERIF, "corpus", "adversarial_z.jsonl"), "w") as f:
        for c in out:
            f.write(json.dumps(c) + "\n")
main()
