#!/usr/bin/env python3
"""Construct public keys one of whose t1 rows has a ZERO coefficient in the NTT domain (NTT(t1 * 2^d)[i] = 0 for a chosen i)
although the row is not zero: probability 1/q per coefficient for random keys, so no random test meets them; a shortcut such as
`if hat[0] == 0 { skip }` in key handling is wrong exactly there.  The evaluation points are read off the real crate
(ratio of the transforms of X and 1), the row is solved for by linear algebra mod q.  Appends to corpus/rare_pk.jsonl.
Run by hand; never at check time."""
import sys, os, json
sys.path.insert(0, os.path.dirname(os.path.abspath(__file__)))
from common import *
import streams as S

def hat_of(setid, rows):
    P = PARAMS[setid]
    pk = bytes(32) + b"".join(S.pack_bits(r, 10) for r in rows)
    o = run_lines(H_RELEASE, ["pk_load %s b:%s" % (setid, pk.hex())], 1)[0].split(" ")
    return [[int(x) for x in p.split(",")] for p in o[3].split(";")]

def main():
    rng = Rng(int(os.environ.get("VERIF_SEED", "79")))
    out = []
    for setid in S.SETS:
        P = PARAMS[setid]; k = P["k"]
        zero = [0] * 256
        e0 = [1] + [0] * 255; e1 = [0, 1] + [0] * 254
        h0 = hat_of(setid, [e0] + [zero] * (k - 1))[0]
        h1 = hat_of(setid, [e1] + [zero] * (k - 1))[0]
        for pos, row in ((0, 0), (255, k - 1), (1, 0), (128, k - 1)):
            r = h1[pos] * pow(h0[pos], -1, Q) % Q
            while True:
                t = [0] + [rng.below(1024) for _ in range(255)]
                acc, rp = 0, 1
                for j in range(1, 256):
                    rp = rp * r % Q
                    acc = (acc + t[j] * rp) % Q
                t0 = (-acc) % Q
                if t0 < 1024:
                    t[0] = t0
                    break
            rows = [[rng.below(1024) for _ in range(256)] for _ in range(k)]
            rows[row] = t
            hat = hat_of(setid, rows)
            assert hat[row][pos] == 0, (setid, pos, hat[row][pos])
            pk = rng.bytes(32) + b"".join(S.pack_bits(x, 10) for x in rows)
            out.append({"set": setid, "pk": pk.hex(), "event": "row %d of t1 is non-zero but NTT(t1*2^d)[%d] = 0" % (row, pos)})
            print(setid, pos, row, "ok", flush=True)
    path = os.path.join(VERIF, "corpus", "rare_pk.jsonl")
    with open(path, "a") as f:
        for c in out:
            f.write(json.dumps(c) + "\n")
main()
