#!/usr/bin/env python3
"""Mine signing inputs that hit rare events (hint weight exactly omega; |z|inf = gamma1-beta-1) with
the REAL crate on the current tree, confirm each against the FIPS 204 transcription (Spec), and
write them to corpus/rare_sign.jsonl.  Run by hand on a tree where the checks are green; the
corpus is committed and replayed first by C01/C03/C05 on every run (never written at check time)."""
import sys, os, json
sys.path.insert(0, os.path.dirname(os.path.abspath(__file__)))
from common import *
import streams as S

def main():
    rng = Rng(int(os.environ.get("VERIF_SEED", "77")))
    per = int(sys.argv[1]) if len(sys.argv) > 1 else 3
    out = []
    for setid in S.SETS:
        P = PARAMS[setid]
        xi, rnd = rng.hex(32), rng.hex(32)
        want = {"w": per, "z": per}
        i = 0
        while (want["w"] > 0 or want["z"] > 0) and i < 400000:
            batch = []
            for j in range(4000):
                mode = S.MODES[(i + j) % 4]
                batch.append((mode, (i + j).to_bytes(4, "little").hex(), "637478"))
            lines = ["sign %s s:%s f%s %s %s %s" % (setid, xi, rnd, m, c, md) for (md, m, c) in batch]
            oo = run_lines(H_RELEASE, lines, 16)
            for (md, m, c), o in zip(batch, oo):
                sig = o.split(" ")[1]
                w, mz = S.sig_stats(setid, sig)
                kind = None
                if w == P["omega"] and want["w"] > 0:
                    kind = "w"; 
                elif mz == P["g1"] - P["beta"] - 1 and want["z"] > 0:
                    kind = "z"
                if kind:
                    want[kind] -= 1
                    out.append({"set": setid, "xi": xi, "rnd": rnd, "msg": m, "ctx": c, "mode": md,
                                "event": "hint weight = omega" if kind == "w" else "|z|inf = gamma1-beta-1", "sig_sha256": hashlib.sha256(bytes.fromhex(sig)).hexdigest()})
            i += 4000
            print(setid, i, want, flush=True)
    # confirm against Spec
    sk = {}
    for c in out:
        if (c["set"], c["xi"]) not in sk:
            sk[(c["set"], c["xi"])] = S.keys_for(c["set"], c["xi"])[1]
    sl = ["spec_sign %s %s %s %s %s %s" % (c["set"], sk[(c["set"], c["xi"])], c["rnd"], c["msg"], c["ctx"], c["mode"]) for c in out]
    so = run_lines(DRIVER, sl)
    keep = []
    for c, o in zip(out, so):
        ok = o.startswith("ok ") and hashlib.sha256(bytes.fromhex(o.split(" ")[1])).hexdigest() == c["sig_sha256"]
        print(c["set"], c["event"], c["msg"], "spec agrees" if ok else "SPEC DISAGREES: " + o[:40])
        if ok:
            keep.append(c)
    os.makedirs(os.path.join(VERIF, "corpus"), exist_ok=True)
    with open(os.path.join(VERIF, "corpus", "rare_sign.jsonl"), "w") as f:
        for c in keep:
            f.write(json.dumps(c) + "\n")
    print("kept", len(keep))

import hashlib
main()
