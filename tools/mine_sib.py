#!/usr/bin/env python3
"""Mine commitment hashes c_tilde for which SampleInBall (FIPS 204 Alg 29) consumes unusually many index-candidate bytes
(harness op `sibtail`, computed from the definition).  A decoder-side buffer that is sized for the typical case fails only on
such values.  Writes corpus/rare_ctilde.jsonl; argv[1] = millions of candidates per set.  Run by hand; never at check time."""
import sys, os, json
sys.path.insert(0, os.path.dirname(os.path.abspath(__file__)))
from common import *

def main():
    M = int(sys.argv[1]) if len(sys.argv) > 1 else 256
    out = []
    for setid, tau, clen in (("87", 60, 64), ("65", 49, 48), ("44", 39, 32)):
        chunk = 4000000
        n = max(16, (M * 1000000) // chunk)
        lines = ["sibtail %d %d c0ffee%s %d %d" % (tau, clen, setid, i * chunk, chunk) for i in range(n)]
        oo = run_lines(H_RELEASE, lines, 16, timeout=20000)
        best = sorted(set(oo), key=lambda o: -int(o.split()[1]))[:4]
        for o in best:
            _, used, ct = o.split(" ")
            out.append({"set": setid, "c_tilde": ct, "event": "SampleInBall consumes %s index-candidate bytes (tau = %d)" % (used, tau), "bytes": int(used)})
        print(setid, [o.split()[1] for o in best], flush=True)
    path = os.path.join(VERIF, "corpus", "rare_ctilde.jsonl")
    old = [json.loads(l) for l in open(path)] if os.path.exists(path) else []
    have = {c["c_tilde"] for c in old}
    with open(path, "a") as f:
        for c in out:
            if c["c_tilde"] not in have:
                f.write(json.dumps(c) + "\n")
main()
