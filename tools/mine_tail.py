#!/usr/bin/env python3
"""Mine key-generation seeds whose ExpandS rejection sampling (RejBoundedPoly, FIPS 204 Alg 31) needs unusually many XOF
bytes for some polynomial: more than two SHAKE256 blocks (272 bytes) - only possible for eta = 4 (ML-DSA-65) - and, for every
set, the seeds with the longest tail seen.  The byte counts are computed with hashlib from the FIPS 204 definition; each seed is
then confirmed (real crate = FIPS 204 transcription) and appended to corpus/rare_keys.jsonl.  Run by hand; never at check time."""
import sys, os, json, hashlib
sys.path.insert(0, os.path.dirname(os.path.abspath(__file__)))
from common import *
import streams as S

def need_bytes(stream, eta):
    n = 0
    for i, z in enumerate(stream):
        for hb in (z & 15, z >> 4):
            if (eta == 2 and hb < 15) or (eta == 4 and hb < 9):
                n += 1
                if n == 256:
                    return i + 1
    return None

def main():
    N = int(sys.argv[1]) if len(sys.argv) > 1 else 60000
    out = []
    for setid in S.SETS:
        P = PARAMS[setid]
        best = []
        for c in range(N):
            xi = c.to_bytes(8, "little") + bytes(24)
            h = hashlib.shake_256(xi + bytes([P["k"], P["l"]])).digest(128)
            rp = h[32:96]
            mx, where = 0, None
            for r in range(P["k"] + P["l"]):
                st = hashlib.shake_256(rp + bytes([r & 255, r >> 8])).digest(136 * 5)
                nb = need_bytes(st, P["eta"])
                if nb is None:
                    nb = 136 * 5
                if nb > mx:
                    mx, where = nb, r
            best.append((mx, xi.hex(), where))
        best.sort(reverse=True)
        picks = best[:3]
        if P["eta"] == 4:
            picks = [b for b in best if b[0] > 272][:6] or picks
        for mx, xi, where in picks:
            out.append({"set": setid, "xi": xi, "event": "RejBoundedPoly for ExpandS polynomial %d consumes %d XOF bytes (%d SHAKE256 blocks)" % (where, mx, (mx + 135) // 136)})
        print(setid, picks, flush=True)
    so = run_lines(DRIVER, ["spec_keygen %s %s" % (c["set"], c["xi"]) for c in out])
    ro = run_lines(H_RELEASE, ["keygen_seed %s %s" % (c["set"], c["xi"]) for c in out], 8)
    path = os.path.join(VERIF, "corpus", "rare_keys.jsonl")
    have = open(path).read()
    with open(path, "a") as f:
        for c, s, r in zip(out, so, ro):
            ok = s == " ".join(r.split(" ")[:3])
            print(c["set"], c["event"], c["xi"][:16], "spec agrees" if ok else "SPEC DISAGREES")
            if ok and c["xi"] not in have:
                c["pk_sha256"] = hashlib.sha256(bytes.fromhex(s.split(" ")[1])).hexdigest()
                f.write(json.dumps(c) + "\n")
main()
