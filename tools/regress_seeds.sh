#!/bin/bash
# regress_seeds.sh [ids...]: apply every stored seeded change to /repo in turn, run the quick check of the property it
# targets, undo it; one summary line per seed.  (Development aid; never part of a registered check.)
cd /verif
IDS="$@"; [ -z "$IDS" ] && IDS=$(ls seeded)
for id in $IDS; do
  prop=$(python3 -c "import json;print(json.load(open('seeded/$id/meta.json'))['property'])")
  git -C /repo apply /verif/seeded/$id/patch.diff || { echo "$id: PATCH DOES NOT APPLY"; continue; }
  out=$(timeout 1800 python3 tools/check.py $prop 2>&1 | grep -E "^(OK|VIOLATION|KNOWN)" | head -2 | tr '\n' ' ')
  key=$(python3 -c "
import json,glob
fs=sorted(glob.glob('replay/$prop-*.json'))
print(' | '.join(json.load(open(f))['key'] for f in fs[:3]))" 2>/dev/null)
  git -C /repo checkout -- . 
  echo "$id [$prop]: ${out:-NOTHING} :: $key"
done
git -C /repo status --short | head -3
