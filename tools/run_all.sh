#!/bin/bash
# run every registered quick (or thorough) check once on the current tree; summary on stdout
TIER=${1:-quick}
cd "$(dirname "$0")/.."
for p in C01 C02 C03 C04 C05 C06 C07 C08 C09 C10 C11 C12 C13 C14 C15 C16 C17 C18; do
  timeout 7200 python3 tools/check.py $p --tier $TIER 2>&1 | grep -E "^(OK|VIOLATION|KNOWN)" | head -3
done
