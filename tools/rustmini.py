#!/usr/bin/env python3
"""A small parser for the subset of Rust that the arithmetic kernels of integritychain/fips204 are
written in (used by tools/gen_kernels.py, translator T4).  It parses whole function bodies -
expressions with Rust's precedences, let/const/if/for/while/return, closures, method chains,
macros with expression arguments - into a plain tuple AST.  Anything it does not understand raises
ParseError (the translator then aborts and the check reports the break) - it never guesses."""
import re


class ParseError(Exception):
    pass


TOKEN = re.compile(r"""
    (?P<ws>\s+|//[^\n]*|/\*.*?\*/)
  | (?P<str>b?"(?:\\.|[^"\\])*")
  | (?P<char>b?'(?:\\.|[^'\\])')
  | (?P<life>'[A-Za-z_][A-Za-z0-9_]*)
  | (?P<num>0x[0-9a-fA-F_]+(?:[iu](?:8|16|32|64|128|size))?|0b[01_]+(?:[iu](?:8|16|32|64|128|size))?|[0-9][0-9_]*(?:[iu](?:8|16|32|64|128|size))?)
  | (?P<id>[A-Za-z_][A-Za-z0-9_]*)
  | (?P<op><<=|>>=|\.\.=|\.\.\.|::|->|=>|==|!=|<=|>=|&&|\|\||\+=|-=|\*=|/=|%=|\^=|&=|\|=|<<|>>|\.\.|[-+*/%^!&|=<>@.,;:#$?~\[\](){}])
""", re.X | re.S)


def tokenize(src):
    out = []
    i = 0
    while i < len(src):
        m = TOKEN.match(src, i)
        if not m:
            raise ParseError("cannot tokenize at %r" % src[i:i + 30])
        i = m.end()
        k = m.lastgroup
        if k == "ws":
            continue
        out.append((k, m.group(k)))
    out.append(("eof", ""))
    return out


def parse_int(tok):
    m = re.match(r"^(0x[0-9a-fA-F_]+?|0b[01_]+?|[0-9][0-9_]*?)((?:[iu](?:8|16|32|64|128|size))?)$", tok)
    if not m:
        raise ParseError("bad integer literal " + tok)
    body = m.group(1).replace("_", "")
    suffix = m.group(2) or None
    if body.startswith("0x"):
        v = int(body[2:], 16)
    elif body.startswith("0b"):
        v = int(body[2:], 2)
    else:
        v = int(body)
    return v, suffix


BINPREC = {
    "*": 110, "/": 110, "%": 110,
    "+": 100, "-": 100,
    "<<": 90, ">>": 90,
    "&": 80, "^": 70, "|": 60,
    "==": 50, "!=": 50, "<": 50, ">": 50, "<=": 50, ">=": 50,
    "&&": 40, "||": 30,
}
ASSIGN = {"=", "+=", "-=", "*=", "/=", "%=", "^=", "&=", "|=", "<<=", ">>="}
AS_PREC = 120
UNARY_PREC = 130


class Parser:
    def __init__(self, toks):
        self.t = toks
        self.i = 0

    # -- token helpers
    def peek(self, k=0):
        return self.t[min(self.i + k, len(self.t) - 1)]

    def at(self, val, k=0):
        return self.peek(k)[1] == val and self.peek(k)[0] in ("op", "id")

    def next(self):
        tok = self.t[self.i]
        self.i += 1
        return tok

    def expect(self, val):
        tok = self.next()
        if tok[1] != val:
            raise ParseError("expected %r, found %r (token %d)" % (val, tok[1], self.i))
        return tok

    def accept(self, val):
        if self.at(val):
            self.i += 1
            return True
        return False

    # -- types (kept as strings)
    def parse_type(self):
        start = self.i
        depth = 0
        while True:
            k, v = self.peek()
            if k == "eof":
                break
            if v in ("(", "[", "<"):
                depth += 1
            elif v in (")", "]", ">"):
                if depth == 0:
                    break
                depth -= 1
            elif v == ">>":
                if depth < 2:
                    break
                depth -= 2
            elif depth == 0 and v in (",", ";", "=", "{", "|"):
                break
            self.i += 1
        return " ".join(x[1] for x in self.t[start:self.i])

    # -- patterns: identifiers, `mut x`, `_`, `&x`, tuples
    def parse_pattern(self):
        if self.accept("("):
            ps = []
            while not self.at(")"):
                ps.append(self.parse_pattern())
                if not self.accept(","):
                    break
            self.expect(")")
            return ("ptuple", ps)
        if self.accept("&") or self.accept("&&"):
            self.accept("mut")
            return self.parse_pattern()
        self.accept("ref")
        self.accept("mut")
        k, v = self.next()
        if k != "id":
            raise ParseError("unsupported pattern starting with %r" % v)
        path = [v]
        while self.at("::"):
            self.next()
            path.append(self.next()[1])
        if self.at("{") and path[-1][:1].isupper():
            self.next()
            fields = []
            while not self.at("}"):
                if self.accept(".."):
                    break
                fname = self.next()[1]
                if self.accept(":"):
                    fields.append((fname, self.parse_pattern()))
                else:
                    fields.append((fname, ("pvar", fname)))
                if not self.accept(","):
                    break
            self.expect("}")
            return ("pstruct", path, fields)
        if self.at("(") and path[-1][:1].isupper():
            self.next()
            ps = []
            while not self.at(")"):
                ps.append(self.parse_pattern())
                if not self.accept(","):
                    break
            self.expect(")")
            return ("ptstruct", path, ps)
        if len(path) > 1:
            return ("ppath", path)
        return ("pvar", v)

    # -- blocks and statements
    def parse_block(self):
        self.expect("{")
        stmts = []
        tail = None
        while not self.at("}"):
            while self.at("#"):
                self.skip_attribute()
            if self.at("}"):
                break
            if self.at("let"):
                self.next()
                pat = self.parse_pattern()
                ty = None
                if self.accept(":"):
                    ty = self.parse_type()
                init = None
                if self.accept("="):
                    init = self.parse_expr(no_struct=False)
                if self.accept("else"):
                    els = self.parse_block()
                    self.expect(";")
                    stmts.append(("letelse", pat, ty, init, els))
                    continue
                self.expect(";")
                stmts.append(("let", pat, ty, init))
                continue
            if self.at("const") and self.peek(1)[0] == "id" and self.peek(2)[1] == ":":
                self.next()
                name = self.next()[1]
                self.expect(":")
                ty = self.parse_type()
                self.expect("=")
                e = self.parse_expr()
                self.expect(";")
                stmts.append(("const", name, ty, e))
                continue
            if self.at("for"):
                self.next()
                pat = self.parse_pattern()
                self.expect("in")
                it = self.parse_expr(no_struct=True)
                body = self.parse_block()
                stmts.append(("for", pat, it, body))
                continue
            if self.at("while"):
                self.next()
                c = self.parse_expr(no_struct=True)
                body = self.parse_block()
                stmts.append(("while", c, body))
                continue
            if self.at("loop"):
                self.next()
                body = self.parse_block()
                stmts.append(("loop", body))
                continue
            if self.at("if") or self.at("{") or self.at("unsafe") or self.at("match"):
                # block-like expression statement: not continued by postfix or binary operators
                e = self.parse_primary(False)
                if self.at(".") or self.at("?"):
                    raise ParseError("method call on a block-like statement")
            else:
                e = self.parse_expr()
            if self.accept(";"):
                stmts.append(("expr", e))
            elif self.at("}"):
                tail = e
            elif e[0] in ("if", "block", "unsafe", "match"):
                stmts.append(("expr", e))      # block-like expression statement
            else:
                raise ParseError("expected ; or } after expression, found %r" % (self.peek()[1],))
        self.expect("}")
        return ("block", stmts, tail)

    def skip_attribute(self):
        self.expect("#")
        self.accept("!")
        self.expect("[")
        depth = 1
        while depth:
            k, v = self.next()
            if k == "eof":
                raise ParseError("unterminated attribute")
            if v == "[":
                depth += 1
            elif v == "]":
                depth -= 1

    # -- expressions
    def parse_expr(self, minprec=0, no_struct=False):
        # assignment and ranges are the loosest
        lhs = self.parse_range(no_struct)
        if self.peek()[0] == "op" and self.peek()[1] in ASSIGN:
            op = self.next()[1]
            rhs = self.parse_expr(no_struct=no_struct)
            return ("assign", op, lhs, rhs)
        return lhs

    def parse_range(self, no_struct):
        if self.at("..") or self.at("..="):
            incl = self.next()[1] == "..="
            hi = None
            if not (self.at(")") or self.at("]") or self.at(",") or self.at(";") or self.at("{")):
                hi = self.parse_bin(0, no_struct)
            return ("range", None, hi, incl)
        lo = self.parse_bin(0, no_struct)
        if self.at("..") or self.at("..="):
            incl = self.next()[1] == "..="
            hi = None
            if not (self.at(")") or self.at("]") or self.at(",") or self.at(";") or self.at("{")):
                hi = self.parse_bin(0, no_struct)
            return ("range", lo, hi, incl)
        return lo

    def parse_bin(self, minprec, no_struct):
        lhs = self.parse_unary(no_struct)
        while True:
            k, v = self.peek()
            if k == "id" and v == "as" and AS_PREC >= minprec:
                self.next()
                ty = self.parse_cast_type()
                lhs = ("cast", lhs, ty)
                continue
            if k == "op" and v in BINPREC and BINPREC[v] >= minprec:
                # `|` directly after a closure parameter list etc. is handled by callers
                prec = BINPREC[v]
                self.next()
                rhs = self.parse_bin(prec + 1, no_struct)
                if v in ("==", "!=", "<", ">", "<=", ">=") and self.peek()[1] in ("==", "!=", "<", ">", "<=", ">="):
                    raise ParseError("chained comparison")
                lhs = ("bin", v, lhs, rhs)
                continue
            return lhs

    def parse_cast_type(self):
        k, v = self.next()
        if k != "id":
            raise ParseError("unsupported cast target %r" % v)
        return v

    def parse_unary(self, no_struct):
        if self.at("-"):
            self.next()
            return ("un", "-", self.parse_unary_operand(no_struct))
        if self.at("!"):
            self.next()
            return ("un", "!", self.parse_unary_operand(no_struct))
        if self.at("*"):
            self.next()
            return ("deref", self.parse_unary_operand(no_struct))
        if self.at("&") or self.at("&&"):
            n = 2 if self.next()[1] == "&&" else 1
            mut = self.accept("mut")
            e = ("ref", mut, self.parse_unary_operand(no_struct))
            if n == 2:
                e = ("ref", False, e)
            return e
        return self.parse_postfix(no_struct)

    def parse_unary_operand(self, no_struct):
        # unary operators bind tighter than `as` and every binary operator
        return self.parse_unary(no_struct)

    def parse_postfix(self, no_struct):
        e = self.parse_primary(no_struct)
        while True:
            if self.at("?"):
                self.next()
                e = ("try", e)
            elif self.at("("):
                args = self.parse_args("(", ")")
                e = ("call", e, args)
            elif self.at("["):
                self.next()
                idx = self.parse_expr()
                self.expect("]")
                e = ("index", e, idx)
            elif self.at("."):
                k, v = self.peek(1)
                if k == "num":
                    self.next()
                    self.next()
                    e = ("field", e, v)
                elif k == "id":
                    self.next()
                    self.next()
                    if self.at("::"):
                        self.next()
                        self.skip_generics()
                    if self.at("("):
                        args = self.parse_args("(", ")")
                        e = ("mcall", e, v, args)
                    else:
                        e = ("field", e, v)
                else:
                    return e
            else:
                return e

    def skip_generics(self):
        self.expect("<")
        depth = 1
        while depth:
            k, v = self.next()
            if k == "eof":
                raise ParseError("unterminated generics")
            if v == "<":
                depth += 1
            elif v == ">":
                depth -= 1
            elif v == ">>":
                depth -= 2

    def parse_args(self, o, c):
        self.expect(o)
        args = []
        while not self.at(c):
            args.append(self.parse_expr())
            if not self.accept(","):
                break
        self.expect(c)
        return args

    def parse_primary(self, no_struct):
        k, v = self.peek()
        if k == "num":
            self.next()
            val, suf = parse_int(v)
            return ("lit", val, suf)
        if k == "str":
            self.next()
            return ("str", v[v.index('"') + 1:-1])
        if k == "char":
            self.next()
            return ("char", v)
        if v == "(":
            self.next()
            if self.accept(")"):
                return ("tuple", [])
            e = self.parse_expr()
            if self.accept(")"):
                return ("paren", e)
            es = [e]
            while self.accept(","):
                if self.at(")"):
                    break
                es.append(self.parse_expr())
            self.expect(")")
            return ("tuple", es)
        if v == "[":
            self.next()
            if self.accept("]"):
                return ("array", [])
            e = self.parse_expr()
            if self.accept(";"):
                n = self.parse_expr()
                self.expect("]")
                return ("repeat", e, n)
            es = [e]
            while self.accept(","):
                if self.at("]"):
                    break
                es.append(self.parse_expr())
            self.expect("]")
            return ("array", es)
        if v == "{":
            return self.parse_block()
        if v == "|" or v == "||" or (k == "id" and v == "move" and self.peek(1)[1] in ("|", "||")):
            if v == "move":
                self.next()
            params = []
            if self.accept("||"):
                pass
            else:
                self.expect("|")
                while not self.at("|"):
                    p = self.parse_pattern()
                    if self.accept(":"):
                        self.parse_type()
                    params.append(p)
                    if not self.accept(","):
                        break
                self.expect("|")
            body = self.parse_expr()
            return ("closure", params, body)
        if k == "id":
            if v == "if":
                return self.parse_if()
            if v == "return":
                self.next()
                if self.at(";") or self.at("}"):
                    return ("return", None)
                return ("return", self.parse_expr())
            if v in ("continue", "break"):
                self.next()
                return (v,)
            if v == "unsafe":
                self.next()
                return ("unsafe", self.parse_block())
            if v == "match":
                self.next()
                scrut = self.parse_expr(no_struct=True)
                self.expect("{")
                arms = []
                while not self.at("}"):
                    start = self.i
                    depth = 0
                    while not (self.at("=>") and depth == 0):
                        vv = self.peek()[1]
                        if self.peek()[0] == "eof":
                            raise ParseError("unterminated match arm")
                        depth += vv in ("(", "[", "{")
                        depth -= vv in (")", "]", "}")
                        self.next()
                    pat = " ".join(x[1] for x in self.t[start:self.i])
                    self.expect("=>")
                    body = self.parse_expr()
                    arms.append((pat, body))
                    if not self.accept(","):
                        if not self.at("}") and body[0] != "block":
                            raise ParseError("match arm not followed by , or }")
                self.expect("}")
                return ("match", scrut, arms)
            if v in ("true", "false"):
                self.next()
                return ("bool", v == "true")
            # path, possibly a macro invocation
            path = [self.next()[1]]
            while self.at("::"):
                self.next()
                if self.at("<"):
                    self.skip_generics()
                    continue
                kk, vv = self.next()
                if kk != "id":
                    raise ParseError("bad path segment %r" % vv)
                path.append(vv)
            if self.at("!") and self.peek(1)[1] in ("(", "[", "{"):
                self.next()
                o = self.peek()[1]
                c = {"(": ")", "[": "]", "{": "}"}[o]
                args = self.parse_args(o, c)
                return ("macro", path[-1], args)
            if self.at("{") and not no_struct and path[-1][:1].isupper():
                self.next()
                fields = []
                while not self.at("}"):
                    if self.at(".."):
                        self.next()
                        fields.append(("..", self.parse_expr()))
                        break
                    fk, fv = self.next()
                    if fk not in ("id", "num"):
                        raise ParseError("bad struct literal field %r" % fv)
                    if self.accept(":"):
                        fields.append((fv, self.parse_expr()))
                    else:
                        fields.append((fv, ("var", fv)))
                    if not self.accept(","):
                        break
                self.expect("}")
                return ("struct", path, fields)
            if len(path) == 1:
                return ("var", path[0])
            return ("path", path)
        if v == "<":
            # qualified path  <T>::name
            self.skip_generics()
            path = ["<>"]
            while self.at("::"):
                self.next()
                if self.at("<"):
                    self.skip_generics()
                    continue
                kk, vv = self.next()
                if kk != "id":
                    raise ParseError("bad path segment %r" % vv)
                path.append(vv)
            return ("path", path)
        raise ParseError("unexpected token %r" % (v,))

    def parse_if(self):
        self.expect("if")
        if self.at("let"):
            self.next()
            start = self.i
            depth = 0
            while not (self.at("=") and depth == 0):
                v = self.peek()[1]
                if self.peek()[0] == "eof":
                    raise ParseError("unterminated if-let pattern")
                depth += v in ("(", "[", "{")
                depth -= v in (")", "]", "}")
                self.next()
            pat = " ".join(x[1] for x in self.t[start:self.i])
            self.expect("=")
            c = ("iflet", pat, self.parse_expr(no_struct=True))
        else:
            c = self.parse_expr(no_struct=True)
        th = self.parse_block()
        el = None
        if self.accept("else"):
            if self.at("if"):
                el = ("block", [], self.parse_if())
            else:
                el = self.parse_block()
        return ("if", c, th, el)


def strip_comments(s):
    s = re.sub(r"/\*.*?\*/", " ", s, flags=re.S)
    return re.sub(r"//[^\n]*", "", s)


def find_fn(src, name, occurrence=0):
    """Locate the (occurrence+1)-th `fn name` in comment-stripped source; returns (params [(name, type)], return type string, body AST)."""
    code = strip_comments(src)
    ms = list(re.finditer(r"\bfn\s+%s\b" % re.escape(name), code))
    if len(ms) <= occurrence:
        raise ParseError("fn %s (occurrence %d) not found" % (name, occurrence))
    m = ms[occurrence]
    toks = tokenize(code[m.end():])
    p = Parser(toks)
    if p.at("<"):
        p.skip_generics()
    p.expect("(")
    params = []
    while not p.at(")"):
        if p.at("&") or p.at("self") or p.at("mut") and p.peek(1)[1] == "self":
            # self receiver
            while not (p.at(",") or p.at(")")):
                p.next()
            params.append(("self", "Self"))
        else:
            p.accept("mut")
            k, v = p.next()
            if k != "id":
                raise ParseError("fn %s: unsupported parameter pattern %r" % (name, v))
            p.expect(":")
            ty = p.parse_type()
            params.append((v, ty))
        if not p.accept(","):
            break
    p.expect(")")
    ret = "()"
    if p.accept("->"):
        ret = p.parse_type()
    if p.at("where"):
        while not p.at("{"):
            p.next()
    body = p.parse_block()
    return params, ret, body


def walk(node, fn):
    """Pre-order traversal over every tuple node of the AST."""
    if isinstance(node, tuple):
        fn(node)
        for c in node:
            walk(c, fn)
    elif isinstance(node, list):
        for c in node:
            walk(c, fn)


def find_all(node, pred):
    out = []
    walk(node, lambda n: out.append(n) if (len(n) > 0 and isinstance(n[0], str) and pred(n)) else None)
    return out
