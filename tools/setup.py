#!/usr/bin/env python3
"""MANIFEST.setup_cmd: build everything from files on disk (offline): Gen translators, full Coq
.vo build, extraction + OCaml driver, Rust harness (checked + release)."""
import sys, os, time
sys.path.insert(0, os.path.dirname(os.path.abspath(__file__)))
from common import *
t0 = time.time()
setup_all()
print("setup done in %.0fs" % (time.time() - t0))
