#!/bin/bash
# try_seed.sh <patch.diff> <prop> [<prop>...]: apply a seeded change to /repo, run the quick checks, undo it.
P=$1; shift
cd /repo && git apply "$P" || { echo "cannot apply $P"; exit 2; }
cd /verif
for c in "$@"; do
  out=$(timeout 1500 python3 tools/check.py $c 2>&1 | grep -E "^(OK|VIOLATION|KNOWN)" | head -3)
  echo "[$c] $out"
  f=$(echo "$out" | grep -o 'replay=[^ ]*' | head -1 | cut -d= -f2)
  [ -n "$f" ] && python3 -c "
import json,sys
d=json.load(open('$f')); print('    key=%s | %s' % (d['key'], d['what'][:160]))"
done
git -C /repo checkout -- . ; git -C /repo status --short | head -3
